#!/bin/sh
# confirm_seed.sh <seed-id> <demo-file> : confirm a seeded change in a scratch worktree of /repo HEAD:
#  (1) existing suite passes with the patch, (2) demo fails with it, (3) demo passes without it.
ID="$1"; DEMO="$2"; LANE="${3:-0}"; DEMOFLAGS="$4"
WT=/tmp/confirm/wt-$ID
export CARGO_TARGET_DIR=/tmp/confirm/target-$LANE
FEAT="mock-core,mock-std,mock-tokio-1,mock-futures-io-0-3,mock-embedded-hal-1"
[ -z "$DEMOFLAGS" ] && DEMOFLAGS="--features $FEAT"
git -C /repo worktree add -q --detach "$WT" HEAD || exit 2
cd "$WT" || exit 2
OUT=/verif/seeded/$ID/confirm.log
: > $OUT
git apply /verif/seeded/$ID/patch.diff || { echo "patch does not apply" >> $OUT; }
SUITE=$(cargo test --workspace --no-fail-fast --offline 2>&1 | grep -E "^test result" | awk '{p+=$4; f+=$6} END {print p" passed "f" failed"}')
echo "suite with patch: $SUITE" >> $OUT
cp "$DEMO" tests/seed_demo.rs
WITH=$(cargo test --offline $DEMOFLAGS --test seed_demo 2>&1 | grep -E "^test result|SIGABRT|signal" | head -3 | tr '\n' ' ')
echo "demo with patch ($DEMOFLAGS): $WITH" >> $OUT
git checkout -q -- src unimock_macros
WITHOUT=$(cargo test --offline $DEMOFLAGS --test seed_demo 2>&1 | grep -E "^test result|SIGABRT|signal" | head -3 | tr '\n' ' ')
echo "demo without patch: $WITHOUT" >> $OUT
cd / && git -C /repo worktree remove --force "$WT"
cat $OUT
