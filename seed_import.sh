#!/bin/sh
# seed_import.sh <src-dir> <patchname> <dest-id>: rebase a sub-agent's patch (made against the pinned snapshot)
# onto /repo HEAD (hooks + fixes) and store it as /verif/seeded/<dest-id>/patch.diff. On conflicts the tree
# is left for manual resolution; run `seed_import.sh --finish <dest-id>` afterwards.
REPO="${SEED_REPO:-/repo}"
if [ "$1" = "--finish" ]; then
  cd $REPO && git reset -q && git diff > /verif/seeded/$2/patch.diff && git reset -q --hard HEAD && git clean -fdq src unimock_macros && echo "stored /verif/seeded/$2/patch.diff ($(wc -l < /verif/seeded/$2/patch.diff) lines)"; exit 0
fi
SRC="$1"; P="$2"; ID="$3"
mkdir -p /verif/seeded/$ID
cd $REPO && git reset -q --hard HEAD
git apply --3way "$SRC/$P.diff" >/dev/null 2>&1
if git diff --name-only --diff-filter=U | grep -q .; then echo "CONFLICTS in: $(git diff --name-only --diff-filter=U | tr '\n' ' ') -- resolve, then: seed_import.sh --finish $ID"; exit 1; fi
git reset -q && git diff > /verif/seeded/$ID/patch.diff && git reset -q --hard HEAD && git clean -fdq src unimock_macros
echo "stored /verif/seeded/$ID/patch.diff ($(wc -l < /verif/seeded/$ID/patch.diff) lines)"
