#!/bin/sh
# usage: try_patch.sh <patch> <prop> [tier]   -- applies to /repo, runs check, reverts
PATCH="$1"; PROP="$2"; TIER="${3:-quick}"
cd /repo || exit 2
git reset -q --hard HEAD
if git apply --check "$PATCH" 2>/dev/null; then
  git apply "$PATCH"
elif git apply --3way "$PATCH" >/dev/null 2>&1 && ! git diff --name-only --diff-filter=U | grep -q .; then
  git reset -q
else
  git reset -q --hard HEAD
  echo "PATCH DOES NOT APPLY: $PATCH"; exit 3
fi
cd /verif && ./check "$PROP" "$TIER" 2>&1 | grep -E "^(VIOLATION|KNOWN|HARNESS|C[0-9]+:|violation found|error)" | cut -c1-${CUT:-300}
cd /repo && git reset -q --hard HEAD && git clean -fdq src unimock_macros tests 2>/dev/null
# the run above rewrote evidence/<prop>.json from a patched tree: put the committed (clean) file back
git -C /verif checkout -q -- "evidence/$PROP.json" 2>/dev/null
# ... and left sim/target built against the patched tree: rebuild against the reverted one, so that nobody
# who runs simctl directly afterwards looks at a stale binary (./check always rebuilds by itself)
(cd /verif/sim && CARGO_NET_OFFLINE=true RUSTFLAGS="--cfg unimock_verif" cargo build --release --offline >/dev/null 2>&1)
