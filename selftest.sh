#!/bin/sh
# ./selftest.sh determinism [runs]   every run index of every batch of every property is executed in separate
#                                    processes: twice with one worker, and split over 4 and 16 workers; the
#                                    hashes of the complete recorded histories must be identical.
# ./selftest.sh silence             every property-preserving change under benign/ must leave the listed checks silent
# ./selftest.sh sensitivity [glob]   every seeded change (or those whose id matches the glob, e.g. '*-[gh]') under seeded/ must be caught by the check recorded in
#                                    its meta.json (applies it to /repo, runs the check, reverts).
cd /verif || exit 2
SIM=/verif/sim/target/release/simctl
case "$1" in
determinism)
  N="${2:-2000}"
  FAIL=0
  for P in C01 C02 C03 C04 C07 C08 C09 C10 C11 C12 C13 C15 C16 C18 C20; do
    T=$(mktemp -d /tmp/selftest.XXXXXX)
    $SIM fingerprint --prop $P --runs $N 2>/dev/null | sort > $T/a &
    $SIM fingerprint --prop $P --runs $N 2>/dev/null | sort > $T/b &
    for W in 0 1 2 3; do $SIM fingerprint --prop $P --runs $N --worker $W --of 4 2>/dev/null > $T/c4.$W & done
    wait
    for W in 0 1 2 3 4 5 6 7 8 9 10 11 12 13 14 15; do $SIM fingerprint --prop $P --runs $N --worker $W --of 16 2>/dev/null > $T/c16.$W & done
    wait
    cat $T/c4.* | sort > $T/c4; cat $T/c16.* | sort > $T/c16
    L=$(wc -l < $T/a)
    if cmp -s $T/a $T/b && cmp -s $T/a $T/c4 && cmp -s $T/a $T/c16; then
      echo "$P: $L runs x 4 executions identical"
    else
      echo "$P: NONDETERMINISM: $(diff $T/a $T/b | head -3) $(diff $T/a $T/c4 | head -3) $(diff $T/a $T/c16 | head -3)"; FAIL=1
    fi
    rm -rf $T
  done
  exit $FAIL ;;
sensitivity)
  FAIL=0
  for D in seeded/${2:-*}/; do
    ID=$(basename $D)
    [ -f $D/meta.json ] || continue
    for P in $(python3 -c "import json;print(' '.join(json.load(open('$D/meta.json'))['caught_by']))"); do
      OUT=$(./try_patch.sh /verif/$D/patch.diff $P quick | grep -c "^VIOLATION")
      if [ "$OUT" -ge 1 ]; then echo "$ID: caught by $P"; else echo "$ID: NOT caught by $P"; FAIL=1; fi
    done
  done
  exit $FAIL ;;
silence)
  # property-preserving changes (benign/): no check may raise an alarm on them
  FAIL=0
  while read -r NAME PROPS; do
    for P in $PROPS; do
      OUT=$(./try_patch.sh /verif/benign/$NAME.diff $P quick)
      if echo "$OUT" | grep -q "^VIOLATION\|HARNESS-ERROR"; then echo "$NAME: ALARM from $P: $(echo "$OUT" | grep -m1 '^violation found\|HARNESS')"; FAIL=1; else echo "$NAME: $P silent"; fi
    done
  done <<'LIST'
B1-reword C01 C02 C03 C04 C07 C08 C09 C10 C11 C12 C13 C15 C16 C18 C20
B2-cap C02 C04 C08 C10 C18
B3-revorder C03 C08 C09 C11 C15 C16 C18
B4-record-first C08 C09 C10 C11 C15 C16
B5-linear-responder C02 C04 C10 C12
B6-loop-scan C01 C07 C08 C10 C11 C15 C16
B7-method-table-vec C01 C02 C03 C04 C07 C08 C09 C10 C11 C12 C13 C15 C16 C18 C20
B8-ordered-index C02 C04 C08 C10 C18
B9-separator-loop C01 C04 C07 C08 C16
B10-packed-starts C02 C03 C04 C10 C12
B11-panic-in-caller-frame C07 C08 C09 C10 C11 C15 C16
LIST
  exit $FAIL ;;
*) echo "usage: selftest.sh determinism [runs] | sensitivity [glob] | silence"; exit 2 ;;
esac
