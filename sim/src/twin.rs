//! Twin-run oracles: C15 (default-method delegation vs. direct calls), C16 (unmocking vs. calling the
//! real function directly) and C18 (behaviour independent of layout / routing / other mocks).

use crate::ctx::*;
use crate::fine::{describe_call, Desc};
use crate::gen::*;
use crate::oracle::{final_ops, v, Violation};
use crate::props::{base_stats, Checked, RunStats};
use crate::rng::Rng;
use crate::spec::*;
use crate::world::{self, RunResult};

fn harness_fail(res: &RunResult) -> Option<String> {
    if res.timed_out || res.sched.deadlock {
        Some("run timed out or deadlocked".into())
    } else {
        res.build_error.as_ref().map(|e| format!("mock construction failed: {e}"))
    }
}

fn seq_sched() -> SchedSpec {
    SchedSpec { fine: false, strategy: Strategy::RoundRobin, seed: 0, sites: 0, choices: vec![] }
}

/// verification text without the lines that name one of the given methods
fn filter_lines(msg: &str, without: &[M]) -> Vec<String> {
    let mut lines: Vec<String> = msg
        .split('\n')
        .filter(|l| !without.iter().any(|m| l.contains(&m.path())))
        .map(|s| s.to_string())
        .collect();
    lines.sort();
    lines
}

fn verdict_lines(r: &OpResult, without: &[M]) -> Option<Vec<String>> {
    match r {
        OpResult::Quiet | OpResult::ExitCode(true) | OpResult::Done => Some(vec![]),
        OpResult::Panicked(m) => Some(filter_lines(m, without)),
        _ => None,
    }
}

fn counts_without(s: &Snap, without: &[M]) -> Vec<(M, Vec<u32>)> {
    s.counts.iter().filter(|(m, _)| !without.contains(m)).cloned().collect()
}

fn top_call_of<'a>(res: &'a RunResult, thread: u8, index: u16) -> Option<&'a CallRec> {
    res.log.calls.iter().find(|c| c.op == (thread, index) && c.parent.is_none())
}

// ---------------------------------------------------------------------------------------------
// C15

pub const FAMILIES: &[(&[M], &[M])] = &[
    (&[M::B0, M::B1], &[M::B2, M::B3]),
    (&[M::Gp], &[M::Gm]),
    (&[M::VProv], &[M::VReq]),
    (&[M::RcProv], &[M::RcReq]),
    (&[M::ArcProv], &[M::ArcReq]),
    (&[M::PinProv], &[M::PinReq]),
];

pub fn gen_c15(base_seed: u64, batch: &str, run: u64, rng: &mut Rng) -> Scenario {
    let race = batch == "helper-race";
    let fam = if race { FAMILIES[0] } else { *rng.pick(FAMILIES) };
    let (provided, required) = fam;
    let mut co = CfgOpts::default();
    co.pool = required.to_vec();
    if rng.chance(1, 2) {
        co.pool.push(*rng.pick(&[M::A0, M::A1]));
    }
    co.max_methods = co.pool.len();
    co.max_patterns = 3;
    co.with_mut = false;
    co.nested_calls = false;
    co.ordered_pct = 30;
    co.resp_weights = [60, 5, 1, 25, 5, 2, 2];
    let mut cfg = gen_config(rng, &co);
    cfg.partial = cfg.partial && rng.chance(1, 2);
    // (b) a clause on the provided method saying applies_default_impl() (unordered only)
    for p in provided.iter() {
        if rng.chance(1, 3) {
            let quant = *rng.pick(&[Quant::Unq, Quant::AtLeast(1), Quant::N(2)]);
            let pos = rng.usize(cfg.clauses.len() + 1);
            cfg.clauses.insert(
                pos,
                ClauseSpec {
                    m: *p,
                    form: if rng.chance(1, 2) { Form::EachCall } else { Form::Stub },
                    patterns: vec![PatternSpec { pred: 0xf, has_matcher: true, segs: vec![Seg { resp: Resp::DefaultImpl, quant }] }],
                },
            );
        }
    }
    // default bodies call 0..3 required methods with argument-dependent arguments
    for (m, prog) in cfg.default_progs.iter_mut() {
        prog.calls.clear();
        if provided.contains(m) {
            for _ in 0..rng.usize(4) {
                prog.calls.push((*rng.pick(required), rng.below(4) as u8, rng.below(4) as u8));
            }
        }
    }
    for (_, prog) in cfg.real_progs.iter_mut() {
        prog.calls.clear();
    }
    let st = Steer::new(&cfg);
    let consuming = matches!(provided[0].info().recv, Recv::Val | Recv::Rc | Recv::Arc);
    let mut threads: Vec<Vec<Op>> = vec![vec![]];
    if race {
        // two or three threads reach the lazily created helper of one shared instance at once
        let n = rng.range(2, 3);
        threads = vec![vec![]; n];
        for t in 0..n {
            for _ in 0..rng.range(1, 2) {
                threads[t].push(Op::Call { slot: 0, m: *rng.pick(provided), x: rng.below(4) as u8, y: 0, catch: true, fault: None, keep: false });
            }
        }
        threads[0].push(Op::Wait { mask: 0xfe });
        threads[0].push(Op::Verify { slot: 0 });
    } else {
        let n = rng.range(1, 8);
        let mut consumed = false;
        for i in 0..n {
            if consumed {
                break;
            }
            let (m, x, y) = if rng.chance(1, 2) {
                (*rng.pick(provided), rng.below(4) as u8, 0)
            } else if !st.flat.patterns.is_empty() && rng.chance(2, 3) {
                let p = rng.pick(&st.flat.patterns).clone();
                let (x, y) = st.args_for(rng, p.uid).unwrap_or((rng.below(4) as u8, 0));
                (p.m, x, y)
            } else {
                (*rng.pick(required), rng.below(4) as u8, rng.below(4) as u8)
            };
            let keep = rng.chance(1, 2);
            let fault = if batch == "faults" && provided.contains(&m) && rng.chance(1, 3) {
                Some(Fault::ProgPanic { nth: 0, pos: rng.below(4) as u8 })
            } else {
                None
            };
            if provided.contains(&m) && consuming && !(keep && m.info().recv != Recv::Val) {
                // the instance does not come back: only as the last operation
                if i + 1 < n && rng.chance(2, 3) {
                    continue;
                }
                consumed = true;
            }
            threads[0].push(Op::Call { slot: 0, m, x, y, catch: true, fault, keep });
        }
        if !consumed {
            threads[0].push(Op::Verify { slot: 0 });
        }
    }
    Scenario {
        prop: "C15".into(),
        base_seed,
        run,
        batch: batch.into(),
        config: cfg,
        config2: None,
        threads,
        sched: gen_sched(rng, race),
        knobs: vec![],
    }
}

pub fn check_c15(scn: &Scenario) -> Checked {
    let res = world::run(scn);
    let mut stats: RunStats = base_stats(scn, &res);
    if let Some(e) = harness_fail(&res) {
        return Checked { violations: vec![], stats, harness_error: Some(e) };
    }
    let mut violations: Vec<Violation> = vec![];
    let provided_all: Vec<M> = FAMILIES.iter().flat_map(|f| f.0.iter().copied()).collect();
    let probe = |st: &mut RunStats, k: &str| *st.probes.entry(k.to_string()).or_default() += 1;
    // every call that resolved to the default body: ran once, caller's arguments, result unchanged
    let mut delegated: Vec<(&CallRec, &ProgRec)> = vec![];
    for c in &res.log.calls {
        if !provided_all.contains(&c.m) {
            continue;
        }
        let runs: Vec<&ProgRec> = res.log.progs.iter().filter(|p| p.call == Some(c.id) && p.kind == ProgKind::DefaultBody(c.m)).collect();
        let resolved_to_body = matches!(c.prog.and_then(|i| res.log.progs.iter().find(|p| p.inv == i)), Some(p) if p.kind == ProgKind::DefaultBody(c.m));
        let flat = scn.config.flatten();
        // was it supposed to reach the body? unmentioned, or the pattern that answered says so
        let expect_body = !flat.mentioned(c.m)
            || flat.of_method(c.m).iter().find(|p| crate::model::accepts(p, c.x, c.y)).map(|p| p.spec.segs.iter().all(|s| s.resp == Resp::DefaultImpl)).unwrap_or(false);
        if !expect_body {
            continue;
        }
        let key = format!("{:?}{}", c.m, match scn.threads[c.op.0 as usize].get(c.op.1 as usize) { Some(Op::Call { keep: true, .. }) => ":shared-handle", _ => ":unique" });
        if !resolved_to_body || runs.len() != 1 {
            violations.push(v(
                "C15",
                "default-body-runs-once",
                key,
                format!("call {:?}({}) should run the trait's default body exactly once; it ran {} time(s); outcome {:?}", c.m, c.x, runs.len(), c.outcome),
            ));
            continue;
        }
        let p = runs[0];
        if p.x != c.x {
            violations.push(v("C15", "default-body-gets-callers-arguments", key.clone(), format!("called with {} but the body saw {}", c.x, p.x)));
        }
        if p.finished {
            let consuming = matches!(c.m.info().recv, Recv::Val) || (matches!(c.m.info().recv, Recv::Rc | Recv::Arc) && key.ends_with(":unique"));
            let ok = c.outcome == Some(Outcome::Value(VAL_PROG | p.inv)) || (consuming && matches!(c.outcome, Some(Outcome::MockPanic(_))));
            if !ok {
                violations.push(v("C15", "result-returned-unchanged", key.clone(), format!("the body finished with {:#x} but the caller got {:?}", VAL_PROG | p.inv, c.outcome)));
            }
        }
        if c.parent.is_none() {
            delegated.push((c, p));
        }
    }
    if scn.batch == "helper-race" {
        if delegated.len() >= 2 {
            probe(&mut stats, "two_threads_reached_the_helper");
        }
        stats.nontrivial = !delegated.is_empty();
        return Checked { violations, stats, harness_error: None };
    }
    if !violations.is_empty() || scn.threads.len() != 1 {
        return Checked { violations, stats, harness_error: None };
    }
    // direct-call twin: replace every delegated call by the required-method calls its body made
    let mut ops_b: Vec<Op> = vec![];
    // for comparison: (index in B, CallRec id in A)
    let mut pairs: Vec<(usize, u32)> = vec![];
    let mut consuming_at: Option<(usize, u32)> = None;
    let mut consuming_finished = false;
    for (i, op) in scn.threads[0].iter().enumerate() {
        let del = delegated.iter().find(|(c, _)| c.op == (0, i as u16));
        match (op, del) {
            (Op::Call { slot, keep, m, .. }, Some((c, p))) => {
                for cid in &p.nested {
                    let n = &res.log.calls[*cid as usize];
                    pairs.push((ops_b.len(), *cid));
                    ops_b.push(Op::Call { slot: *slot, m: n.m, x: n.x, y: n.y, catch: true, fault: None, keep: false });
                }
                let consumes = matches!(m.info().recv, Recv::Val) || (matches!(m.info().recv, Recv::Rc | Recv::Arc) && !*keep);
                if consumes {
                    consuming_finished = p.finished;
                    consuming_at = Some((ops_b.len(), c.id));
                    ops_b.push(Op::Drop { slot: *slot });
                }
            }
            (Op::Call { .. }, None) => {
                if let Some(c) = top_call_of(&res, 0, i as u16) {
                    pairs.push((ops_b.len(), c.id));
                }
                let mut o = op.clone();
                if let Op::Call { fault, .. } = &mut o {
                    // faults of delegated calls are inside the body, which the twin does not run
                    if matches!(fault, Some(Fault::ProgPanic { .. })) && provided_all.contains(match op { Op::Call { m, .. } => m, _ => unreachable!() }) {
                        *fault = None;
                    }
                }
                ops_b.push(o);
            }
            _ => ops_b.push(op.clone()),
        }
    }
    let twin = Scenario { batch: "twin".into(), threads: vec![ops_b], sched: seq_sched(), ..scn.clone() };
    let res_b = world::run(&twin);
    stats.extra_runs += 1;
    if let Some(e) = harness_fail(&res_b) {
        return Checked { violations, stats, harness_error: Some(format!("twin: {e}")) };
    }
    for (bi, cid) in &pairs {
        let a = &res.log.calls[*cid as usize];
        let da = describe_call(&res.log, a);
        let db = top_call_of(&res_b, 0, *bi as u16).map(|c| describe_call(&res_b.log, c)).unwrap_or(Desc::Skipped);
        if da != db {
            violations.push(v(
                "C15",
                "delegated-call-evaluated-like-a-direct-call",
                format!("{:?}", a.m),
                format!("{:?}({},{}) made {} gave {:?}; the same call made directly on a twin mock gave {:?}", a.m, a.x, a.y, if a.parent.is_some() { "by a default body" } else { "directly" }, da, db),
            ));
            return Checked { violations, stats, harness_error: None };
        }
    }
    // by-value / unique Rc / unique Arc: the instance is verified when the call ends
    // (only when the body ran to its end: a panic unwinding out of the body drops the instance
    // without verification, which is C11's rule)
    if let (Some((bi, cid)), true) = (consuming_at, consuming_finished) {
        let a = &res.log.calls[cid as usize];
        let b = res_b.log.ops.iter().find(|o| o.thread == 0 && o.index as usize == bi);
        let la = match &a.outcome {
            Some(Outcome::Value(_)) => Some(vec![]),
            Some(Outcome::MockPanic(m)) => Some(filter_lines(m, &provided_all)),
            _ => None,
        };
        let lb = b.and_then(|o| verdict_lines(&o.result, &provided_all));
        probe(&mut stats, "original_travelled_through_the_helper");
        if la.is_some() && lb.is_some() && la != lb {
            violations.push(v(
                "C15",
                "consumed-instance-verified-at-the-end-of-the-call",
                format!("{:?}", a.m),
                format!("the call consumed the original: it ended with {:?}; dropping the twin after the same direct calls gives {:?}", a.outcome, b.map(|o| &o.result)),
            ));
        }
    }
    // final state and verdict
    let fa = final_ops(scn, &res);
    let fb = final_ops(&twin, &res_b);
    if let (Some((oa, _)), Some((ob, _))) = (fa.last(), fb.last()) {
        if consuming_at.is_none() {
            if let (Some(sa), Some(sb)) = (&oa.pre, &ob.pre) {
                if counts_without(sa, &provided_all) != counts_without(sb, &provided_all) || sa.ordered != sb.ordered {
                    violations.push(v(
                        "C15",
                        "same-counters-as-direct-calls",
                        "state",
                        format!("after the history the counters are {:?}/{}; after the direct-call twin {:?}/{}", sa.counts, sa.ordered, sb.counts, sb.ordered),
                    ));
                }
            }
            let (la, lb) = (verdict_lines(&oa.result, &provided_all), verdict_lines(&ob.result, &provided_all));
            if la.is_some() && lb.is_some() && la != lb {
                violations.push(v("C15", "same-verdict-as-direct-calls", "verdict", format!("verdict {:?} vs. twin {:?}", oa.result, ob.result)));
            }
        }
    }
    if !delegated.is_empty() {
        probe(&mut stats, "call_resolved_to_default_body");
        if delegated.iter().any(|(_, p)| p.nested.len() >= 2) {
            probe(&mut stats, "body_made_two_or_more_required_calls");
        }
        if delegated.iter().any(|(c, _)| scn.config.flatten().mentioned(c.m)) {
            probe(&mut stats, "through_applies_default_impl_clause");
        }
        for (c, _) in &delegated {
            probe(&mut stats, &format!("receiver_{:?}", c.m.info().recv));
        }
    }
    stats.nontrivial = !delegated.is_empty();
    Checked { violations, stats, harness_error: None }
}
