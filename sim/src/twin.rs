//! Twin-run oracles: C15 (default-method delegation vs. direct calls), C16 (unmocking vs. calling the
//! real function directly) and C18 (behaviour independent of layout / routing / other mocks).

use crate::ctx::*;
use crate::fine::{describe_call, route_free, Desc};
use crate::gen::*;
use crate::oracle::{final_ops, v, Violation};
use crate::props::{base_stats, Checked, RunStats};
use crate::rng::Rng;
use crate::spec::*;
use crate::world::{self, RunResult};

fn harness_fail(res: &RunResult) -> Option<String> {
    if res.timed_out || res.sched.deadlock {
        Some("run timed out or deadlocked".into())
    } else {
        None
    }
}

/// The generators only emit configurations the reference model calls consistent: a mock that cannot
/// be built from one is a violation of the property whose world this is, not a harness problem.
fn unconstructible(prop: &str, res: &RunResult) -> Option<Violation> {
    res.build_error.as_ref().map(|e| v(prop, "consistent-configuration-is-constructible", "Unimock::new", format!("Unimock::new panicked on a consistent clause set: {e}")))
}

fn seq_sched() -> SchedSpec {
    SchedSpec { fine: false, strategy: Strategy::RoundRobin, seed: 0, sites: 0, choices: vec![] }
}

/// verification text without the lines that name one of the given methods
fn filter_lines(msg: &str, without: &[M]) -> Vec<String> {
    let mut lines: Vec<String> = msg
        .split('\n')
        .filter(|l| !without.iter().any(|m| l.contains(&m.path())))
        .map(|s| s.to_string())
        .collect();
    lines.sort();
    lines
}

fn verdict_lines(r: &OpResult, without: &[M]) -> Option<Vec<String>> {
    match r {
        OpResult::Quiet | OpResult::ExitCode(true) | OpResult::Done => Some(vec![]),
        OpResult::Panicked(m) => Some(filter_lines(m, without)),
        _ => None,
    }
}

fn counts_without(s: &Snap, without: &[M]) -> Vec<(M, Vec<u32>)> {
    s.counts.iter().filter(|(m, _)| !without.contains(m)).cloned().collect()
}

fn top_call_of<'a>(res: &'a RunResult, thread: u8, index: u16) -> Option<&'a CallRec> {
    res.log.calls.iter().find(|c| c.op == (thread, index) && c.parent.is_none())
}

// ---------------------------------------------------------------------------------------------
// C15

pub const FAMILIES: &[(&[M], &[M])] = &[
    (&[M::B0, M::B1], &[M::B2, M::B3]),
    (&[M::Gp], &[M::Gm]),
    (&[M::VProv], &[M::VReq]),
    (&[M::RcProv], &[M::RcReq]),
    (&[M::ArcProv], &[M::ArcReq]),
    (&[M::PinProv], &[M::PinReq]),
    (&[M::V2Prov], &[M::V2Req]),
    (&[M::Rc2Prov], &[M::Rc2Req]),
    (&[M::Arc2Prov], &[M::Arc2Req]),
];

/// Deep recursion through the mock: default body -> required method -> answer function -> default
/// body ... (C15), real function -> mock -> real function ... (C16), hundreds of levels.
fn gen_deep(prop: &str, base_seed: u64, batch: &str, run: u64, rng: &mut Rng) -> Scenario {
    let wild = |m: M, resp: Resp| ClauseSpec {
        m,
        form: Form::EachCall,
        patterns: vec![PatternSpec { pred: if m.info().two_args { 0xffff } else { 0xf }, has_matcher: true, macro_form: false, segs: vec![Seg { resp, quant: Quant::Unq }] }],
    };
    let mut cfg = Config { nest_seed: rng.next() | 1, ..Default::default() };
    let first = if prop == "C15" {
        // b0 (provided) calls b2 (required); b2's answer calls b0 again
        cfg.clauses.push(wild(M::B2, Resp::AnswersArc(Prog { calls: vec![(M::B0, 1, 0)] })));
        if rng.chance(1, 2) {
            cfg.clauses.push(wild(M::B0, Resp::DefaultImpl));
        }
        cfg.default_progs.push((M::B0, Prog { calls: vec![(M::B2, 1, 1)] }));
        cfg.partial = rng.chance(1, 3);
        M::B0
    } else {
        // a0's real function calls a0 through the mock
        cfg.partial = rng.chance(1, 2);
        if !cfg.partial || rng.chance(1, 2) {
            cfg.clauses.push(wild(M::A0, Resp::Unmocked));
        }
        cfg.real_progs.push((M::A0, Prog { calls: vec![(M::A0, 1, 0)] }));
        M::A0
    };
    let depth = *rng.pick(&[40i64, 130, 200, 257, 300]);
    Scenario {
        prop: prop.into(),
        base_seed,
        run,
        batch: batch.into(),
        config: cfg,
        config2: None,
        threads: vec![vec![Op::Call { slot: 0, m: first, x: rng.below(4) as u8, y: 0, catch: true, fault: None, keep: false }, Op::Verify { slot: 0 }]],
        sched: seq_sched(),
        knobs: vec![("max_depth".into(), depth), ("stack_kb".into(), 65536)],
    }
}

pub fn gen_c15(base_seed: u64, batch: &str, run: u64, rng: &mut Rng) -> Scenario {
    if batch == "fault-free" && (rng.chance(1, 60) || std::env::var("SIM_FORCE_DEEP").is_ok()) {
        return gen_deep("C15", base_seed, batch, run, rng);
    }
    let race = batch == "helper-race";
    let fam = if race { FAMILIES[0] } else { *rng.pick(FAMILIES) };
    // sometimes two receiver kinds on one instance: the lazily created helper is per instance, not
    // per trait
    let fam2 = if !race && rng.chance(1, 3) { Some(*rng.pick(FAMILIES)) } else { None };
    let provided_v: Vec<M> = fam.0.iter().chain(fam2.iter().flat_map(|f| f.0.iter())).copied().collect::<std::collections::BTreeSet<_>>().into_iter().collect();
    let required_v: Vec<M> = fam.1.iter().chain(fam2.iter().flat_map(|f| f.1.iter())).copied().collect::<std::collections::BTreeSet<_>>().into_iter().collect();
    let (provided, required): (&[M], &[M]) = (&provided_v, &required_v);
    let mut co = CfgOpts::default();
    co.pool = required.to_vec();
    if rng.chance(1, 2) {
        co.pool.push(*rng.pick(&[M::A0, M::A1]));
    }
    co.max_methods = co.pool.len();
    co.max_patterns = 3;
    co.with_mut = false;
    co.nested_calls = false;
    co.ordered_pct = 30;
    co.resp_weights = [60, 5, 1, 25, 5, 2, 2];
    let mut cfg = gen_config(rng, &co);
    cfg.partial = cfg.partial && rng.chance(1, 2);
    // (b) a clause on the provided method saying applies_default_impl() (unordered only)
    for p in provided.iter() {
        if rng.chance(1, 3) {
            let quant = *rng.pick(&[Quant::Unq, Quant::AtLeast(1), Quant::N(2)]);
            let pos = rng.usize(cfg.clauses.len() + 1);
            cfg.clauses.insert(
                pos,
                ClauseSpec {
                    m: *p,
                    form: if rng.chance(1, 2) { Form::EachCall } else { Form::Stub },
                    patterns: vec![PatternSpec { pred: 0xf, has_matcher: true, macro_form: false, segs: vec![Seg { resp: Resp::DefaultImpl, quant }] }],
                },
            );
        }
    }
    // default bodies call 0..3 required methods with argument-dependent arguments
    for (m, prog) in cfg.default_progs.iter_mut() {
        prog.calls.clear();
        if provided.contains(m) {
            // a default body can only call the required methods of its own trait
            let own: Vec<M> = FAMILIES.iter().filter(|f| f.0.contains(m)).flat_map(|f| f.1.iter().copied()).collect();
            let max = if *m == M::V2Prov { 2 } else { 4 };
            for _ in 0..rng.usize(max) {
                prog.calls.push((*rng.pick(&own), rng.below(4) as u8, rng.below(4) as u8));
            }
        }
    }
    for (_, prog) in cfg.real_progs.iter_mut() {
        prog.calls.clear();
    }
    let st = Steer::new(&cfg);
    let mut threads: Vec<Vec<Op>> = vec![vec![]];
    if race {
        // two or three threads reach the lazily created helper of one shared instance at once
        let n = rng.range(2, 3);
        threads = vec![vec![]; n];
        for t in 0..n {
            for _ in 0..rng.range(1, 2) {
                threads[t].push(Op::Call { slot: 0, m: *rng.pick(provided), x: rng.below(4) as u8, y: 0, catch: true, fault: None, keep: false });
            }
        }
        threads[0].push(Op::Wait { mask: 0xfe });
        threads[0].push(Op::Verify { slot: 0 });
    } else {
        let n = rng.range(1, 8);
        let mut consumed = false;
        for i in 0..n {
            if consumed {
                break;
            }
            let (m, x, y) = if rng.chance(1, 2) {
                (*rng.pick(provided), rng.below(4) as u8, 0)
            } else if !st.flat.patterns.is_empty() && rng.chance(2, 3) {
                let p = rng.pick(&st.flat.patterns).clone();
                let (x, y) = st.args_for(rng, p.uid).unwrap_or((rng.below(4) as u8, 0));
                (p.m, x, y)
            } else {
                (*rng.pick(required), rng.below(4) as u8, rng.below(4) as u8)
            };
            let keep = rng.chance(1, 2);
            let fault = if batch == "faults" && provided.contains(&m) && rng.chance(1, 3) {
                Some(Fault::ProgPanic { nth: 0, pos: rng.below(4) as u8 })
            } else {
                None
            };
            let consuming = matches!(m.info().recv, Recv::Val | Recv::Rc | Recv::Arc);
            if consuming && !(keep && m.info().recv != Recv::Val) {
                // the instance does not come back: only as the last operation
                if i + 1 < n && rng.chance(2, 3) {
                    continue;
                }
                consumed = true;
                // now and then the owner has switched verification-at-drop off before it hands the mock over
                if rng.chance(1, 5) {
                    threads[0].push(Op::NoVerifyInDrop { slot: 0 });
                }
            }
            threads[0].push(Op::Call { slot: 0, m, x, y, catch: true, fault, keep });
        }
        if !consumed {
            threads[0].push(Op::Verify { slot: 0 });
        }
    }
    Scenario {
        prop: "C15".into(),
        base_seed,
        run,
        batch: batch.into(),
        config: cfg,
        config2: None,
        threads,
        sched: gen_sched(rng, race),
        knobs: vec![],
    }
}

pub fn check_c15(scn: &Scenario) -> Checked {
    let res = world::run(scn);
    let mut stats: RunStats = base_stats(scn, &res);
    if let Some(e) = harness_fail(&res) {
        return Checked { violations: vec![], stats, harness_error: Some(e) };
    }
    if let Some(viol) = unconstructible(&scn.prop, &res) {
        return Checked { violations: vec![viol], stats, harness_error: None };
    }
    let mut violations: Vec<Violation> = vec![];
    let provided_all: Vec<M> = FAMILIES.iter().flat_map(|f| f.0.iter().copied()).collect();
    let probe = |st: &mut RunStats, k: &str| *st.probes.entry(k.to_string()).or_default() += 1;
    // every call that resolved to the default body: ran once, caller's arguments, result unchanged
    let mut delegated: Vec<(&CallRec, &ProgRec)> = vec![];
    for c in &res.log.calls {
        if !provided_all.contains(&c.m) {
            continue;
        }
        let runs: Vec<&ProgRec> = res.log.progs.iter().filter(|p| p.call == Some(c.id) && p.kind == ProgKind::DefaultBody(c.m)).collect();
        let resolved_to_body = matches!(c.prog.and_then(|i| res.log.progs.iter().find(|p| p.inv == i)), Some(p) if p.kind == ProgKind::DefaultBody(c.m));
        let flat = scn.config.flatten();
        // was it supposed to reach the body? unmentioned, or the pattern that answered says so
        let expect_body = !flat.mentioned(c.m)
            || flat.of_method(c.m).iter().find(|p| crate::model::accepts(p, c.x, c.y)).map(|p| p.spec.segs.iter().all(|s| s.resp == Resp::DefaultImpl)).unwrap_or(false);
        if !expect_body {
            continue;
        }
        let key = format!("{:?}{}", c.m, match scn.threads[c.op.0 as usize].get(c.op.1 as usize) { Some(Op::Call { keep: true, .. }) => ":shared-handle", _ => ":unique" });
        if !resolved_to_body || runs.len() != 1 {
            violations.push(v(
                "C15",
                "default-body-runs-once",
                key,
                format!("call {:?}({}) should run the trait's default body exactly once; it ran {} time(s); outcome {:?}", c.m, c.x, runs.len(), c.outcome),
            ));
            continue;
        }
        let p = runs[0];
        if p.x != c.x {
            violations.push(v("C15", "default-body-gets-callers-arguments", key.clone(), format!("called with {} but the body saw {}", c.x, p.x)));
        }
        if p.finished {
            let consuming = matches!(c.m.info().recv, Recv::Val) || (matches!(c.m.info().recv, Recv::Rc | Recv::Arc) && key.ends_with(":unique"));
            let ok = c.outcome == Some(Outcome::Value(VAL_PROG | p.inv)) || (consuming && matches!(c.outcome, Some(Outcome::MockPanic(_))));
            if !ok {
                violations.push(v("C15", "result-returned-unchanged", key.clone(), format!("the body finished with {:#x} but the caller got {:?}", VAL_PROG | p.inv, c.outcome)));
            }
        }
        if c.parent.is_none() {
            delegated.push((c, p));
        }
    }
    if scn.batch == "helper-race" {
        if delegated.len() >= 2 {
            probe(&mut stats, "two_threads_reached_the_helper");
        }
        stats.nontrivial = !delegated.is_empty();
        return Checked { violations, stats, harness_error: None };
    }
    // the verdict, from the actual state (no twin involved): helpers - also the helpers of helpers that
    // re-entrant default bodies create - are not clones the user made, and an instance that a by-value
    // call consumed is verified where it ends, inside that call
    if violations.is_empty() && scn.threads.len() == 1 {
        let flat = scn.config.flatten();
        let expect_fail = |snap: &Snap| {
            let (p, m) = crate::oracle::unmet(&flat, snap);
            !snap.errors.is_empty() || !p.is_empty() || !m.is_empty()
        };
        if let Some((o, op)) = final_ops(scn, &res).last() {
            if let Some(pre) = &o.pre {
                let failed = matches!(o.result, OpResult::Panicked(_) | OpResult::ExitCode(false));
                if expect_fail(pre) != failed {
                    violations.push(v(
                        "C15",
                        "verdict-follows-the-counts",
                        format!("{:?}", std::mem::discriminant(*op)),
                        format!("after calls through default bodies the original has recorded errors {:?} and counts {:?}: verification should {}, but {:?}", pre.errors, pre.counts, if expect_fail(pre) { "fail" } else { "pass" }, o.result),
                    ));
                }
            }
        }
        for c in res.log.calls.iter().filter(|c| c.parent.is_none() && c.thread == 0) {
            let unique = !matches!(scn.threads[c.op.0 as usize].get(c.op.1 as usize), Some(Op::Call { keep: true, .. }));
            let consuming = matches!(c.m.info().recv, Recv::Val) || (matches!(c.m.info().recv, Recv::Rc | Recv::Arc) && unique);
            let on_original = matches!(scn.threads[c.op.0 as usize].get(c.op.1 as usize), Some(Op::Call { slot: 0, .. }));
            // the user code the call reached (default body or answer function) ran to its end, or there was none
            let finished = match c.prog.and_then(|i| res.log.progs.iter().find(|p| p.inv == i)) {
                Some(p) => p.finished,
                None => true,
            };
            if !consuming || !on_original || !finished {
                continue;
            }
            let failed = matches!(c.outcome, Some(Outcome::MockPanic(_)));
            let no_verify = res.log.ops.iter().any(|o| {
                o.thread == 0 && o.index < c.op.1 && matches!(o.result, OpResult::Done) && matches!(scn.threads[0].get(o.index as usize), Some(Op::NoVerifyInDrop { slot: 0 }))
            });
            // the state at the end of the call: after the last evaluation inside it
            let Some(last) = res.log.calls.iter().rev().find(|x| x.op == c.op).and_then(|x| x.post.as_ref()) else {
                // a by-value method answered with a plain value: nothing is left to look at afterwards.
                // With verification at drop switched off, and a call that the clauses say cannot fail
                // (accepted by an unordered pattern whose response is a repeatable value), a mock-induced
                // panic can only be a verification that should not run
                if let (true, true, Some(pre)) = (no_verify, failed, &c.pre) {
                    use crate::model::*;
                    if pre.errors.is_empty() && flat.mentioned(c.m) && !flat.ordered(c.m) {
                        if let Some(p) = flat.of_method(c.m).into_iter().find(|p| accepts(p, c.x, c.y)) {
                            let k = pre.counts_of(p.m).and_then(|v| v.get(p.index).copied()).unwrap_or(0) + 1;
                            if let Assigned::Seg(i) = assigned_segment(p, k) {
                                if matches!(p.spec.segs[i].resp, Resp::Returns | Resp::ReturnsDefault) && !seg_single_use(p, i) {
                                    violations.push(v(
                                        "C15",
                                        "consumed-instance-verified-at-the-end-of-the-call",
                                        format!("{:?}:no_verify_in_drop", c.m),
                                        format!("{:?}({}) consumed the original after no_verify_in_drop() and is answered with a plain value; the call ended with {:?}", c.m, c.x, c.outcome),
                                    ));
                                }
                            }
                        }
                    }
                }
                continue;
            };
            if no_verify {
                // no_verify_in_drop() was called on it: the instance ends without any verification; a
                // mock-induced panic with nothing recorded can only be a verification that should not run
                if failed && last.errors.is_empty() {
                    violations.push(v(
                        "C15",
                        "consumed-instance-verified-at-the-end-of-the-call",
                        format!("{:?}:no_verify_in_drop", c.m),
                        format!("{:?} consumed the original after no_verify_in_drop(); no error was recorded, yet the call ended with {:?}", c.m, c.outcome),
                    ));
                }
                continue;
            }
            if matches!(c.outcome, Some(Outcome::Value(_)) | Some(Outcome::MockPanic(_))) && expect_fail(last) != failed {
                violations.push(v(
                    "C15",
                    "consumed-instance-verified-at-the-end-of-the-call",
                    format!("{:?}:model", c.m),
                    format!("{:?} consumed the original; at its end the recorded errors were {:?} and the counts {:?}: its verification should {}, but the call ended with {:?}", c.m, last.errors, last.counts, if expect_fail(last) { "fail" } else { "pass" }, c.outcome),
                ));
            }
        }
    }
    // (deep-recursion runs are judged call by call only: the harness's own cut-off is counted in
    // nesting levels of user programs, which a twin without the delegating level reaches one call later)
    if !violations.is_empty() || scn.threads.len() != 1 || scn.knob("max_depth").is_some() {
        return Checked { violations, stats, harness_error: None };
    }
    // direct-call twin: replace every delegated call by the required-method calls its body made
    let mut ops_b: Vec<Op> = vec![];
    // for comparison: (index in B, CallRec id in A)
    let mut pairs: Vec<(usize, u32)> = vec![];
    let mut consuming_at: Option<(usize, u32)> = None;
    let mut consuming_finished = false;
    for (i, op) in scn.threads[0].iter().enumerate() {
        let del = delegated.iter().find(|(c, _)| c.op == (0, i as u16));
        match (op, del) {
            (Op::Call { slot, keep, m, .. }, Some((c, p))) => {
                for cid in &p.nested {
                    let n = &res.log.calls[*cid as usize];
                    pairs.push((ops_b.len(), *cid));
                    // (inside a body an Rc/Arc receiver is a clone of the handle: keep the instance)
                    ops_b.push(Op::Call { slot: *slot, m: n.m, x: n.x, y: n.y, catch: true, fault: None, keep: matches!(n.m.info().recv, Recv::Rc | Recv::Arc) });
                }
                let consumes = matches!(m.info().recv, Recv::Val) || (matches!(m.info().recv, Recv::Rc | Recv::Arc) && !*keep);
                // a by-value nested call took the instance along: it is verified at the end of that call
                let taken_along = p.nested.iter().any(|cid| res.log.calls[*cid as usize].m == M::V2Req);
                if consumes && taken_along {
                    consuming_at = None;
                } else if consumes {
                    consuming_finished = p.finished;
                    consuming_at = Some((ops_b.len(), c.id));
                    ops_b.push(Op::Drop { slot: *slot });
                }
            }
            (Op::Call { .. }, None) => {
                if let Some(c) = top_call_of(&res, 0, i as u16) {
                    pairs.push((ops_b.len(), c.id));
                }
                let mut o = op.clone();
                if let Op::Call { fault, .. } = &mut o {
                    // faults of delegated calls are inside the body, which the twin does not run
                    if matches!(fault, Some(Fault::ProgPanic { .. })) && provided_all.contains(match op { Op::Call { m, .. } => m, _ => unreachable!() }) {
                        *fault = None;
                    }
                }
                ops_b.push(o);
            }
            _ => ops_b.push(op.clone()),
        }
    }
    let twin = Scenario { batch: "twin".into(), threads: vec![ops_b], sched: seq_sched(), ..scn.clone() };
    let res_b = world::run(&twin);
    stats.extra_runs += 1;
    if let Some(e) = harness_fail(&res_b) {
        return Checked { violations, stats, harness_error: Some(format!("twin: {e}")) };
    }
    if let Some(viol) = unconstructible(&scn.prop, &res_b) {
        return Checked { violations: vec![viol], stats, harness_error: None };
    }
    for (bi, cid) in &pairs {
        let a = &res.log.calls[*cid as usize];
        let da = describe_call(&res.log, a);
        let db = top_call_of(&res_b, 0, *bi as u16).map(|c| describe_call(&res_b.log, c)).unwrap_or(Desc::Skipped);
        // a by-value call ends with the verification of the instance it consumed: expectations on the
        // provided methods themselves (which only the delegated run matched) are not part of the
        // comparison
        let by_value_end = |d: &Desc| match d {
            Desc::MockPanic(m) if matches!(a.m.info().recv, Recv::Val | Recv::Rc | Recv::Arc) => Some(filter_lines(m, &provided_all)),
            _ => None,
        };
        let same = route_free(&da) == route_free(&db)
            || match (by_value_end(&da), by_value_end(&db)) {
                (Some(x), Some(y)) => x == y,
                (None, Some(y)) => y.is_empty() && !matches!(da, Desc::MockPanic(_)),
                (Some(x), None) => x.is_empty() && !matches!(db, Desc::MockPanic(_)),
                (None, None) => false,
            };
        if !same {
            violations.push(v(
                "C15",
                "delegated-call-evaluated-like-a-direct-call",
                format!("{:?}", a.m),
                format!("{:?}({},{}) made {} gave {:?}; the same call made directly on a twin mock gave {:?}", a.m, a.x, a.y, if a.parent.is_some() { "by a default body" } else { "directly" }, da, db),
            ));
            return Checked { violations, stats, harness_error: None };
        }
    }
    // by-value / unique Rc / unique Arc: the instance is verified when the call ends
    // (only when the body ran to its end: a panic unwinding out of the body drops the instance
    // without verification, which is C11's rule)
    if let (Some((bi, cid)), true) = (consuming_at, consuming_finished) {
        let a = &res.log.calls[cid as usize];
        let b = res_b.log.ops.iter().find(|o| o.thread == 0 && o.index as usize == bi);
        let la = match &a.outcome {
            Some(Outcome::Value(_)) => Some(vec![]),
            Some(Outcome::MockPanic(m)) => Some(filter_lines(m, &provided_all)),
            _ => None,
        };
        let lb = b.and_then(|o| verdict_lines(&o.result, &provided_all));
        probe(&mut stats, "original_travelled_through_the_helper");
        if la.is_some() && lb.is_some() && la != lb {
            violations.push(v(
                "C15",
                "consumed-instance-verified-at-the-end-of-the-call",
                format!("{:?}", a.m),
                format!("the call consumed the original: it ended with {:?}; dropping the twin after the same direct calls gives {:?}", a.outcome, b.map(|o| &o.result)),
            ));
        }
    }
    // final state and verdict
    let fa = final_ops(scn, &res);
    let fb = final_ops(&twin, &res_b);
    if let (Some((oa, _)), Some((ob, _))) = (fa.last(), fb.last()) {
        if consuming_at.is_none() {
            if let (Some(sa), Some(sb)) = (&oa.pre, &ob.pre) {
                if counts_without(sa, &provided_all) != counts_without(sb, &provided_all) || sa.ordered != sb.ordered {
                    violations.push(v(
                        "C15",
                        "same-counters-as-direct-calls",
                        "state",
                        format!("after the history the counters are {:?}/{}; after the direct-call twin {:?}/{}", sa.counts, sa.ordered, sb.counts, sb.ordered),
                    ));
                }
            }
            let (la, lb) = (verdict_lines(&oa.result, &provided_all), verdict_lines(&ob.result, &provided_all));
            if la.is_some() && lb.is_some() && la != lb {
                violations.push(v("C15", "same-verdict-as-direct-calls", "verdict", format!("verdict {:?} vs. twin {:?}", oa.result, ob.result)));
            }
        }
    }
    if !delegated.is_empty() {
        probe(&mut stats, "call_resolved_to_default_body");
        if delegated.iter().any(|(_, p)| p.nested.len() >= 2) {
            probe(&mut stats, "body_made_two_or_more_required_calls");
        }
        if delegated.iter().any(|(c, _)| scn.config.flatten().mentioned(c.m)) {
            probe(&mut stats, "through_applies_default_impl_clause");
        }
        for (c, _) in &delegated {
            probe(&mut stats, &format!("receiver_{:?}", c.m.info().recv));
        }
    }
    stats.nontrivial = !delegated.is_empty();
    Checked { violations, stats, harness_error: None }
}

// ---------------------------------------------------------------------------------------------
// C16

// (B0 and GpU8 have a default body and no registered function: "unmocked" must not mean "the default body")
const C16_POOL: &[M] = &[M::A0, M::A1, M::B1, M::E0, M::S0, M::S1, M::S2, M::Gm, M::Vu, M::RcU, M::D0, M::B0, M::GpU8];

pub fn gen_c16(base_seed: u64, batch: &str, run: u64, rng: &mut Rng) -> Scenario {
    if batch == "executor" {
        return gen_c16_async(base_seed, batch, run, rng);
    }
    if batch == "fault-free" && rng.chance(1, 60) {
        return gen_deep("C16", base_seed, batch, run, rng);
    }
    let mut co = CfgOpts::default();
    let mut pool = C16_POOL.to_vec();
    rng.shuffle(&mut pool);
    pool.truncate(rng.range(2, 4));
    co.pool = pool.clone();
    co.with_mut = false;
    co.max_methods = co.pool.len();
    co.max_patterns = 3;
    co.ordered_pct = 20;
    co.resp_weights = [30, 3, 1, 14, 4, 45, 3];
    co.nested_calls = true;
    let mut cfg = gen_config(rng, &co);
    cfg.partial = rng.chance(1, 2);
    // real functions call back into mocked traits (recursion through the mock included)
    let callable: Vec<M> = C16_POOL.iter().copied().filter(|m| m.info().recv == Recv::Ref).collect();
    for (m, prog) in cfg.real_progs.iter_mut() {
        prog.calls.clear();
        let n = rng.weighted(&[35, 35, 20, 10]);
        for _ in 0..n {
            let target = if rng.chance(1, 3) && m.info().recv == Recv::Ref { *m } else { *rng.pick(&callable) };
            prog.calls.push((target, 1 + rng.below(3) as u8, rng.below(4) as u8));
        }
    }
    let st = Steer::new(&cfg);
    let mut ops = vec![];
    let mut consumed: Option<Op> = None;
    for _ in 0..rng.range(1, 8) {
        let (m, x, y) = if !st.flat.patterns.is_empty() && rng.chance(1, 2) {
            let p = rng.pick(&st.flat.patterns).clone();
            let (x, y) = st.args_for(rng, p.uid).unwrap_or((rng.below(4) as u8, rng.below(4) as u8));
            (p.m, x, y)
        } else if rng.chance(1, 10) {
            // a method that no clause can mention (its trait is mocked without `api=`)
            (M::N0, rng.below(4) as u8, 0)
        } else {
            (*rng.pick(&pool), rng.below(4) as u8, rng.below(4) as u8)
        };
        let y = if m.info().two_args { y } else { 0 };
        let fault = if batch == "faults" && m == M::D0 && rng.chance(1, 2) {
            // the argument's Debug panics if anybody renders it: nobody may, unless an error is reported
            Some(Fault::DebugPanic)
        } else if batch == "faults" && rng.chance(1, 4) {
            Some(Fault::ProgPanic { nth: rng.below(2) as u8, pos: rng.below(3) as u8 })
        } else {
            None
        };
        if matches!(m.info().recv, Recv::Val | Recv::Rc) {
            // consumes the instance: only as the last operation (the real function owns the mock)
            consumed = Some(Op::Call { slot: 0, m, x, y, catch: true, fault: None, keep: false });
            continue;
        }
        ops.push(Op::Call { slot: 0, m, x, y, catch: true, fault, keep: false });
    }
    match consumed {
        Some(op) => ops.push(op),
        None => ops.push(Op::Verify { slot: 0 }),
    }
    Scenario {
        prop: "C16".into(),
        base_seed,
        run,
        batch: batch.into(),
        config: cfg,
        config2: None,
        threads: vec![ops],
        sched: seq_sched(),
        knobs: vec![],
    }
}

fn gen_c16_async(base_seed: u64, batch: &str, run: u64, rng: &mut Rng) -> Scenario {
    let mut clauses = vec![];
    let wild = |m: M, resp: Resp, quant: Quant| ClauseSpec {
        m,
        form: Form::EachCall,
        patterns: vec![PatternSpec { pred: 0xf, has_matcher: true, macro_form: false, segs: vec![Seg { resp, quant }] }],
    };
    let partial = rng.chance(1, 2);
    // af: explicit applies_unmocked(), or left to the partial fall-through
    if !partial || rng.chance(1, 2) {
        clauses.push(wild(M::Af, Resp::Unmocked, Quant::Unq));
    }
    if rng.chance(2, 3) {
        clauses.push(wild(M::Ag, if rng.chance(1, 2) { Resp::Returns } else { Resp::AnswersArc(Prog::default()) }, Quant::Unq));
    }
    if rng.chance(2, 3) {
        // the `-> impl Future` spelling, sometimes with an exact count so that evaluations are visible
        let quant = *rng.pick(&[Quant::Unq, Quant::Unq, Quant::N(2), Quant::AtLeast(1)]);
        clauses.push(wild(M::Ai, if rng.chance(1, 2) { Resp::Returns } else { Resp::AnswersArc(Prog::default()) }, quant));
    }
    if !partial || rng.chance(1, 2) {
        clauses.push(wild(M::At, Resp::Unmocked, Quant::Unq));
    }
    clauses.push(wild(M::A1, Resp::Returns, Quant::Unq));
    rng.shuffle(&mut clauses);
    let mut cfg = Config { partial, clauses, nest_seed: rng.next() | 1, ..Default::default() };
    for m in [M::Af, M::At] {
        let mut calls = vec![];
        for _ in 0..rng.usize(3) {
            calls.push((M::A1, rng.below(4) as u8, 0));
        }
        cfg.real_progs.push((m, Prog { calls }));
    }
    let mut ops = vec![];
    for _ in 0..rng.range(1, 3) {
        let n = rng.range(1, 4);
        let tasks: Vec<(M, u8)> = (0..n).map(|_| (*rng.pick(&[M::Af, M::Af, M::At, M::Ag, M::Ai, M::Ai]), rng.below(4) as u8)).collect();
        let mut plan = vec![];
        for _ in 0..rng.usize(8) {
            let i = rng.usize(n) as u8;
            plan.push(if rng.chance(1, 4) { ExecStep::Drop(i) } else { ExecStep::Poll(i) });
        }
        ops.push(Op::AsyncGroup { slot: 0, tasks, plan });
        if rng.chance(1, 3) {
            ops.push(Op::Call { slot: 0, m: *rng.pick(&[M::Af, M::At, M::Ag, M::Ai]), x: rng.below(4) as u8, y: 0, catch: true, fault: None, keep: false });
        }
    }
    ops.push(Op::Verify { slot: 0 });
    Scenario {
        prop: "C16".into(),
        base_seed,
        run,
        batch: batch.into(),
        config: cfg,
        config2: None,
        threads: vec![ops],
        sched: seq_sched(),
        knobs: vec![],
    }
}

/// does the configuration say this call resolves to the real implementation?
fn expect_real(scn: &Scenario, flat: &Flat, c: &CallRec) -> bool {
    use crate::model::*;
    let cfg = &scn.config;
    let Some(pre) = &c.pre else { return false };
    if let Some(Fault::MatcherPanic { .. }) | Some(Fault::MatcherMustNotRun { .. }) = crate::oracle::op_fault(scn, c.op) {
        return false;
    }
    if !flat.mentioned(c.m) {
        return matches!(route_unmentioned(cfg, c.m), Route::RealFn | Route::MissingRealFn);
    }
    let pat = if flat.ordered(c.m) {
        match slot_owner(flat, pre.ordered) {
            Some(p) if p.m == c.m && accepts(p, c.x, c.y) => Some(p),
            _ => return false,
        }
    } else {
        match flat.of_method(c.m).into_iter().find(|p| accepts(p, c.x, c.y)) {
            Some(p) => Some(p),
            None => return matches!(route_unmatched(cfg, c.m), Route::RealFn | Route::MissingRealFn),
        }
    };
    let p = pat.unwrap();
    let k = pre.counts_of(p.m).and_then(|v| v.get(p.index).copied()).unwrap_or(0) + 1;
    match assigned_segment(p, k) {
        Assigned::Seg(i) => p.spec.segs[i].resp == Resp::Unmocked,
        _ => false,
    }
}

pub fn check_c16(scn: &Scenario) -> Checked {
    let res = world::run(scn);
    let mut stats: RunStats = base_stats(scn, &res);
    if let Some(e) = harness_fail(&res) {
        return Checked { violations: vec![], stats, harness_error: Some(e) };
    }
    if let Some(viol) = unconstructible(&scn.prop, &res) {
        return Checked { violations: vec![viol], stats, harness_error: None };
    }
    let mut violations: Vec<Violation> = vec![];
    let flat = scn.config.flatten();
    let probe = |st: &mut RunStats, k: &str| *st.probes.entry(k.to_string()).or_default() += 1;
    let mut resolved: Vec<&CallRec> = vec![];
    for c in &res.log.calls {
        if matches!(c.outcome, Some(Outcome::Cancelled)) || c.outcome.is_none() {
            continue;
        }
        if !expect_real(scn, &flat, c) {
            continue;
        }
        let info = c.m.info();
        let key = format!("{:?}:{}", c.m, if flat.mentioned(c.m) { "applies_unmocked" } else { "fall-through" });
        if !info.has_unmock {
            let ok = matches!(&c.outcome, Some(Outcome::MockPanic(m)) if m.contains(&c.m.path())) && c.prog.is_none();
            if !ok {
                violations.push(v("C16", "missing-function-panics-naming-the-method", key, format!("no real function is registered for {}; got {:?}", c.m.path(), c.outcome)));
            }
            continue;
        }
        let runs: Vec<&ProgRec> = res.log.progs.iter().filter(|p| p.call == Some(c.id) && p.kind == ProgKind::Real(c.m)).collect();
        let first = c.prog.and_then(|i| res.log.progs.iter().find(|p| p.inv == i));
        if runs.len() != 1 || !matches!(first, Some(p) if p.kind == ProgKind::Real(c.m)) {
            violations.push(v(
                "C16",
                "real-function-called-exactly-once",
                key,
                format!("{:?}({},{}) resolves to the registered real function; it ran {} time(s) (first user code reached: {:?}); outcome {:?}", c.m, c.x, c.y, runs.len(), first.map(|p| p.kind), c.outcome),
            ));
            continue;
        }
        let p = runs[0];
        if p.x != c.x || (info.two_args && p.y != c.y) {
            violations.push(v("C16", "arguments-in-order", key.clone(), format!("called with ({},{}) but the real function received ({},{})", c.x, c.y, p.x, p.y)));
        }
        let consuming = matches!(info.recv, Recv::Val | Recv::Rc);
        // a consuming real function usually drops the instance, which verifies it inside the call (a
        // verification panic is then the call's legitimate outcome); `real_vu` with an odd argument
        // lets the instance outlive the call instead - nothing may be verified before it returns
        let drops_inside = consuming && !(c.m == M::Vu && c.x & 1 == 1);
        if p.finished && c.outcome != Some(Outcome::Value(VAL_PROG | p.inv)) && !(drops_inside && matches!(c.outcome, Some(Outcome::MockPanic(_)))) {
            violations.push(v("C16", "result-returned-unchanged", key.clone(), format!("the real function returned {:#x}, the caller got {:?}", VAL_PROG | p.inv, c.outcome)));
        }
        // a real function that owns the original and lets go of it verifies it right there: by the
        // state at that moment, like any other verification (nobody cloned anything in this world)
        let on_original = matches!(scn.threads[c.op.0 as usize].get(c.op.1 as usize), Some(Op::Call { slot: 0, .. }));
        if p.finished && drops_inside && on_original && c.parent.is_none() {
            if let Some(last) = res.log.calls.iter().rev().find(|x| x.op == c.op).and_then(|x| x.post.as_ref()) {
                let (up, um) = crate::oracle::unmet(&flat, last);
                let expect_fail = !last.errors.is_empty() || !up.is_empty() || !um.is_empty();
                let failed = matches!(c.outcome, Some(Outcome::MockPanic(_)));
                if matches!(c.outcome, Some(Outcome::Value(_)) | Some(Outcome::MockPanic(_))) && expect_fail != failed {
                    violations.push(v(
                        "C16",
                        "owned-instance-verified-where-the-real-function-drops-it",
                        key.clone(),
                        format!("the real function of {:?} owned the original and dropped it; recorded errors {:?}, counts {:?}: that verification should {}, but the call ended with {:?}", c.m, last.errors, last.counts, if expect_fail { "fail" } else { "pass" }, c.outcome),
                    ));
                }
            }
        }
        probe(&mut stats, "call_resolved_to_real_function");
        if c.parent.is_some() {
            probe(&mut stats, "recursion_through_the_mock");
        }
        if info.is_async {
            probe(&mut stats, "async_real_function");
        }
        // twin candidates: fall-through calls (no pattern is counted for them, so calling the real
        // function directly leaves the twin in exactly the same state)
        let untouched = matches!((&c.pre, &c.post), (Some(a), Some(b)) if a.same_counts(b));
        if c.parent.is_none() && untouched && !consuming {
            resolved.push(c);
        }
    }
    stats.nontrivial = res.log.calls.iter().any(|c| matches!(c.prog.and_then(|i| res.log.progs.iter().find(|p| p.inv == i)), Some(p) if matches!(p.kind, ProgKind::Real(_)))) || !res.log.tasks.is_empty();
    // executor world
    if !res.log.tasks.is_empty() {
        for t in &res.log.tasks {
            if t.before_create.as_ref().map(|s| (&s.counts, s.ordered)) != t.after_create.as_ref().map(|s| (&s.counts, s.ordered)) {
                violations.push(v("C16", "creating-a-future-evaluates-nothing", format!("{:?}", t.m), format!("creating the future of {:?}({}) changed the mock's counters", t.m, t.x)));
            }
            if t.polls == 0 {
                probe(&mut stats, "future_dropped_unpolled");
                if t.call.is_some() {
                    violations.push(v("C16", "unpolled-future-evaluates-nothing", format!("{:?}", t.m), "a future that was never polled left a call record".to_string()));
                }
            }
            if t.cancelled && t.polls > 0 {
                probe(&mut stats, "future_dropped_midway");
            }
        }
        // each polled future evaluated its call exactly once: per method, matches == futures polled
        for m in [M::Af, M::Ag, M::At, M::Ai] {
            if !flat.mentioned(m) {
                continue;
            }
            let polled = res.log.calls.iter().filter(|c| c.m == m && c.parent.is_none() && c.mock == 0).count() as u32;
            let finals = final_ops(scn, &res);
            if let Some(pre) = finals.last().and_then(|(o, _)| o.pre.as_ref()) {
                let total: u32 = pre.counts_of(m).map(|v| v.iter().sum()).unwrap_or(0);
                if total != polled {
                    violations.push(v(
                        "C16",
                        "one-evaluation-per-awaited-future",
                        format!("{m:?}"),
                        format!("{polled} futures of {m:?} were polled at least once (incl. blocking calls) but its patterns were matched {total} time(s)"),
                    ));
                }
            }
        }
        // the real function ran once for every future that got past its first suspension point
        for t in &res.log.tasks {
            if !t.m.info().has_unmock {
                continue;
            }
            let Some(cid) = t.call else { continue };
            let runs = res.log.progs.iter().filter(|p| p.call == Some(cid) && p.kind == ProgKind::Real(t.m)).count();
            let expected = (t.polls >= 2) as usize;
            if runs != expected {
                violations.push(v(
                    "C16",
                    "real-function-called-exactly-once",
                    format!("{:?}:executor", t.m),
                    format!("future of {:?}({}) was polled {} time(s): the real function body should have run {} time(s), ran {}", t.m, t.x, t.polls, expected, runs),
                ));
            }
        }
        // a future that is dropped before it completes is not an error: without a mock-induced panic
        // nothing is recorded and the final verdict follows the counts
        let any_mock_panic = res.log.calls.iter().any(|c| matches!(c.outcome, Some(Outcome::MockPanic(_))));
        if !any_mock_panic {
            for (o, op) in final_ops(scn, &res) {
                let Some(pre) = &o.pre else { continue };
                if !crate::oracle::ordinary_verdict_expected(scn, &res.log, o) {
                    continue;
                }
                if !pre.errors.is_empty() {
                    violations.push(v("C16", "cancelled-future-is-no-error", "recorded", format!("no call ended in a mock-induced panic, yet errors are recorded: {:?}", pre.errors)));
                    continue;
                }
                let (p, m) = crate::oracle::unmet(&flat, pre);
                let expect_fail = !p.is_empty() || !m.is_empty();
                let failed = matches!(o.result, OpResult::Panicked(_) | OpResult::ExitCode(false));
                if expect_fail != failed {
                    violations.push(v("C16", "verdict-follows-counts", format!("{:?}", std::mem::discriminant(op)), format!("after polled, cancelled and completed futures the counts are {:?}: verification should {}, but {:?}", pre.counts, if expect_fail { "fail" } else { "pass" }, o.result)));
                }
            }
        }
        return Checked { violations, stats, harness_error: None };
    }
    if !violations.is_empty() || resolved.is_empty() || scn.knob("max_depth").is_some() {
        return Checked { violations, stats, harness_error: None };
    }
    // direct-call twin: real_fn(&twin, args) instead of the call that resolved to it
    let mut ops_b = vec![];
    let mut pairs: Vec<(usize, &CallRec)> = vec![];
    let mut adjust: Vec<(M, usize)> = vec![];
    let mut ordered_adjust = 0u32;
    for (i, op) in scn.threads[0].iter().enumerate() {
        match (op, resolved.iter().find(|c| c.op == (0, i as u16))) {
            (Op::Call { slot, m, x, y, .. }, Some(c)) => {
                pairs.push((ops_b.len(), c));
                ops_b.push(Op::DirectReal { slot: *slot, m: *m, x: *x, y: *y });
                if let (Some(pre), Some(post)) = (&c.pre, &c.post) {
                    if let (Some(a), Some(b)) = (pre.counts_of(*m), post.counts_of(*m)) {
                        for (k, (ca, cb)) in a.iter().zip(b).enumerate() {
                            if *cb == *ca + 1 {
                                adjust.push((*m, k));
                            }
                        }
                    }
                    ordered_adjust += post.ordered - pre.ordered;
                }
            }
            (Op::Call { fault, .. }, None) if fault.is_some() => {
                // a fault aimed at "the n-th user program of this call" lands elsewhere in the twin
                return Checked { violations, stats, harness_error: None };
            }
            _ => ops_b.push(op.clone()),
        }
    }
    if scn.threads[0].iter().any(|o| matches!(o, Op::Call { fault: Some(_), .. })) {
        return Checked { violations, stats, harness_error: None };
    }
    let twin = Scenario { batch: "twin".into(), threads: vec![ops_b], sched: seq_sched(), ..scn.clone() };
    let res_b = world::run(&twin);
    stats.extra_runs += 1;
    if let Some(e) = harness_fail(&res_b) {
        return Checked { violations, stats, harness_error: Some(format!("twin: {e}")) };
    }
    if let Some(viol) = unconstructible(&scn.prop, &res_b) {
        return Checked { violations: vec![viol], stats, harness_error: None };
    }
    for (bi, c) in &pairs {
        // calls the real function made back into the mock, side by side
        let pa = res.log.progs.iter().find(|p| Some(p.inv) == c.prog);
        let na: Vec<Desc> = pa.map(|p| p.nested.iter().map(|id| describe_call(&res.log, &res.log.calls[*id as usize])).collect()).unwrap_or_default();
        let nb: Vec<Desc> = res_b.log.calls.iter().filter(|x| x.op == (0, *bi as u16) && x.parent.is_none()).map(|x| describe_call(&res_b.log, x)).collect();
        if na.iter().map(route_free).collect::<Vec<_>>() != nb.iter().map(route_free).collect::<Vec<_>>() {
            violations.push(v(
                "C16",
                "re-entrant-calls-evaluated-by-the-same-mock",
                format!("{:?}", c.m),
                format!("calls made by the real function of {:?}({},{}) back into the mock gave {:?}; calling the function directly with a twin mock gave {:?}", c.m, c.x, c.y, na, nb),
            ));
            return Checked { violations, stats, harness_error: None };
        }
    }
    let (fa, fb) = (final_ops(scn, &res), final_ops(&twin, &res_b));
    if let (Some((oa, _)), Some((ob, _))) = (fa.last(), fb.last()) {
        if let (Some(sa), Some(sb)) = (&oa.pre, &ob.pre) {
            let mut expect = sa.counts.clone();
            for (m, k) in &adjust {
                if let Some((_, v)) = expect.iter_mut().find(|(mm, _)| mm == m) {
                    v[*k] = v[*k].saturating_sub(1);
                }
            }
            if expect != sb.counts || sa.ordered - ordered_adjust != sb.ordered {
                violations.push(v(
                    "C16",
                    "same-counters-as-direct-call-of-the-real-function",
                    "state",
                    format!("counters after the history {:?}/{} (minus the unmocked calls' own matches {:?}) differ from the twin's {:?}/{}", sa.counts, sa.ordered, adjust, sb.counts, sb.ordered),
                ));
            }
        }
    }
    Checked { violations, stats, harness_error: None }
}

// ---------------------------------------------------------------------------------------------
// C18: behaviour depends only on clauses and call history, not on incidental layout

/// run-independent and layout-independent description of one call's outcome
fn canon_desc(flat: &Flat, log: &Log, c: &CallRec) -> String {
    let pat = |uid: u16| flat.patterns.get(uid as usize).map(|p| format!("{:?}#{}", p.m, p.index)).unwrap_or_else(|| format!("?{uid}"));
    match describe_call(log, c) {
        Desc::Ret(uid, seg) => format!("ret {} seg {seg}", pat(uid)),
        Desc::Prog(ProgKind::Answer { uid, seg }, x, y) => format!("answer {} seg {seg} ({x},{y})", pat(uid)),
        Desc::Prog(kind, x, y) => format!("{kind:?} ({x},{y})"),
        Desc::MockPanic(m) => format!("mock panic: {}", canon_msg(flat, &m)),
        other => format!("{other:?}"),
    }
}

/// replace the harness-chosen pattern names (which encode the clause position) by (method, index)
fn canon_msg(flat: &Flat, msg: &str) -> String {
    let mut out = msg.to_string();
    for p in flat.patterns.iter().rev() {
        let name = crate::build::pat_name(p.uid);
        out = out.replace(&format!("{name} at cfg:{}", p.uid), &format!("<{:?}#{}>", p.m, p.index));
        out = out.replace(name, &format!("<{:?}#{}>", p.m, p.index));
    }
    let mut lines: Vec<&str> = out.split('\n').collect();
    lines.sort();
    lines.join("\n")
}

fn canon_counts(s: &Snap) -> (Vec<(M, Vec<u32>)>, u32) {
    (s.counts.clone(), s.ordered)
}

const C18_POOL: &[M] = &[M::A0, M::A1, M::B0, M::B2, M::B3, M::S0, M::S1, M::S2, M::GenU8, M::GenU16, M::GmU8, M::GmU16, M::GiU8, M::GiU16, M::GnU8, M::GnU16];

/// methods that are interchangeable (same signature, same capabilities): relabelling a scenario
/// along such a pair changes nothing but the (arbitrary) order of the internal method table
const CLASSES: &[&[M]] = &[&[M::A1, M::S1], &[M::A0, M::S0, M::S2]];

pub fn gen_c18(base_seed: u64, batch: &str, run: u64, rng: &mut Rng) -> Scenario {
    let mut co = CfgOpts::default();
    co.pool = C18_POOL.to_vec();
    co.with_mut = false;
    co.max_methods = 4;
    co.max_patterns = 3;
    co.ordered_pct = 35;
    co.nested_calls = batch != "reroute"; // nested calls are made on the instance the user code is given
    if rng.chance(1, 12) {
        // many methods at once: the layout transformations then move clauses across a large method table
        co.min_methods = 9;
        co.max_methods = 12;
        co.min_patterns = 1;
        co.max_patterns = 3;
    }
    let mut cfg = gen_config(rng, &co);
    // a method answered with make_ref(self.clone()): a clone of the mock parked in the value chain of
    // whichever instance the call went through
    let lend_clone = rng.chance(1, 4);
    if lend_clone {
        cfg.specials = vec![Special::LendClone];
    }
    let st = Steer::new(&cfg);
    let mut ops = vec![];
    let mut st2 = st.clone();
    for _ in 0..rng.usize(13) {
        let (m, x, y) = if !st.flat.patterns.is_empty() && rng.chance(3, 5) {
            if rng.chance(1, 2) {
                if let Some(q) = crate::model::slot_owner(&st2.flat, st2.ordered_index).cloned() {
                    let (x, y) = st2.args_for(rng, q.uid).unwrap_or((0, 0));
                    (q.m, x, y)
                } else {
                    let p = rng.pick(&st.flat.patterns).clone();
                    let (x, y) = st.args_for(rng, p.uid).unwrap_or((rng.below(4) as u8, 0));
                    (p.m, x, y)
                }
            } else {
                let p = rng.pick(&st.flat.patterns).clone();
                let (x, y) = st.args_for(rng, p.uid).unwrap_or((rng.below(4) as u8, 0));
                (p.m, x, y)
            }
        } else {
            let m = *rng.pick(C18_POOL);
            (m, rng.below(4) as u8, if m.info().two_args { rng.below(4) as u8 } else { 0 })
        };
        st2.apply(m, x, y);
        ops.push(Op::Call { slot: 0, m, x, y, catch: true, fault: None, keep: false });
        if lend_clone && rng.chance(1, 4) {
            ops.push(Op::Call { slot: 0, m: M::LendClone, x: 0, y: 0, catch: true, fault: None, keep: false });
        }
    }
    ops.push(match rng.weighted(&[50, 35, 15]) {
        0 => Op::Verify { slot: 0 },
        1 => Op::Drop { slot: 0 },
        _ => Op::Report { slot: 0 },
    });
    // the second, independent mock (used by the "two-mocks" transformation)
    let mut co2 = CfgOpts::default();
    co2.pool = C18_POOL.to_vec();
    co2.with_mut = false;
    co2.max_methods = 3;
    co2.max_patterns = 2;
    let cfg2 = if rng.chance(1, 3) { cfg.clone() } else { gen_config(rng, &co2) };
    Scenario {
        prop: "C18".into(),
        base_seed,
        run,
        batch: batch.into(),
        config: cfg,
        config2: Some(cfg2),
        threads: vec![ops],
        sched: seq_sched(),
        knobs: vec![("transform_seed".into(), (rng.next() >> 2) as i64)],
    }
}

/// permute clauses of different methods, keeping every method's own order and the relative order
/// of all ordered clauses
fn permute_clauses(cfg: &Config, rng: &mut Rng) -> Config {
    let mut out = cfg.clone();
    // group: all ordered clauses form one sequence; each unordered method forms one sequence
    let mut seqs: Vec<Vec<ClauseSpec>> = vec![];
    let mut keys: Vec<Option<M>> = vec![];
    for c in &cfg.clauses {
        let key = if c.form.ordered() { None } else { Some(c.m) };
        match keys.iter().position(|k| *k == key) {
            Some(i) => seqs[i].push(c.clone()),
            None => {
                keys.push(key);
                seqs.push(vec![c.clone()]);
            }
        }
    }
    let mut cursors = vec![0usize; seqs.len()];
    let mut clauses = vec![];
    loop {
        let avail: Vec<usize> = (0..seqs.len()).filter(|i| cursors[*i] < seqs[*i].len()).collect();
        if avail.is_empty() {
            break;
        }
        let i = *rng.pick(&avail);
        clauses.push(seqs[i][cursors[i]].clone());
        cursors[i] += 1;
    }
    out.clauses = clauses;
    out.nest_seed = rng.next() | 1;
    out
}

struct Observed {
    calls: Vec<String>,
    counts: Option<(Vec<(M, Vec<u32>)>, u32)>,
    verdict: Option<String>,
}

fn observe(scn: &Scenario, res: &RunResult, mock: u8, cfg: &Config) -> Observed {
    let flat = cfg.flatten();
    let mut calls: Vec<&CallRec> = res.log.calls.iter().filter(|c| c.mock == mock && c.parent.is_none()).collect();
    calls.sort_by_key(|c| c.invoke_step);
    let calls = calls.into_iter().map(|c| format!("{:?}({},{}) -> {}", c.m, c.x, c.y, canon_desc(&flat, &res.log, c))).collect();
    let slot0 = if mock == 0 { 0 } else { world::SLOT_MOCK2 };
    let fin = res.log.ops.iter().rev().find(|o| {
        o.original == Some(true)
            && matches!(scn.threads.get(o.thread as usize).and_then(|t| t.get(o.index as usize)), Some(Op::Drop { slot } | Op::Verify { slot } | Op::Report { slot }) if *slot == slot0)
    });
    Observed {
        calls,
        counts: fin.and_then(|o| o.pre.as_ref()).map(canon_counts),
        verdict: fin.map(|o| match &o.result {
            OpResult::Panicked(m) => format!("fail: {}", canon_msg(&flat, m)),
            other => format!("{other:?}"),
        }),
    }
}

pub fn check_c18(scn: &Scenario) -> Checked {
    let base = Scenario { config2: None, ..scn.clone() };
    let res = world::run(&base);
    let mut stats: RunStats = base_stats(&base, &res);
    if let Some(e) = harness_fail(&res) {
        return Checked { violations: vec![], stats, harness_error: Some(e) };
    }
    if let Some(viol) = unconstructible(&scn.prop, &res) {
        return Checked { violations: vec![viol], stats, harness_error: None };
    }
    let mut violations: Vec<Violation> = vec![];
    let probe = |st: &mut RunStats, k: &str| *st.probes.entry(k.to_string()).or_default() += 1;
    let flat = scn.config.flatten();
    let a = observe(&base, &res, 0, &scn.config);
    // generic instantiations never mix: a response always belongs to the called instantiation
    for c in &res.log.calls {
        if let Desc::Ret(uid, _) | Desc::Prog(ProgKind::Answer { uid, .. }, _, _) = describe_call(&res.log, c) {
            if flat.patterns.get(uid as usize).map(|p| p.m) != Some(c.m) {
                violations.push(v("C18", "patterns-of-distinct-methods-never-mix", format!("{:?}", c.m), format!("{:?}({}) was answered by a pattern of {:?}", c.m, c.x, flat.patterns.get(uid as usize).map(|p| p.m))));
            }
        }
    }
    if res.log.calls.iter().any(|c| matches!(c.m, M::GenU8 | M::GenU16 | M::GmU8 | M::GmU16 | M::GiU8 | M::GiU16 | M::GnU8 | M::GnU16) && matches!(c.outcome, Some(Outcome::Value(_)))) {
        probe(&mut stats, "generic_instantiation_answered");
    }
    let mut rng = Rng::new(scn.knob("transform_seed").unwrap_or(1) as u64);
    let calls: Vec<Op> = base.threads[0].iter().filter(|o| matches!(o, Op::Call { .. })).cloned().collect();
    let fin = base.threads[0].last().cloned().unwrap_or(Op::Verify { slot: 0 });
    let mut b = base.clone();
    b.batch = "twin".into();
    let mut what = vec![];
    // T1: permute clauses across methods
    if scn.batch == "permute" || (scn.batch == "mixed" && rng.chance(1, 2)) {
        b.config = permute_clauses(&scn.config, &mut rng);
        what.push("clauses permuted across methods");
        probe(&mut stats, "transformation_permute_clauses");
    }
    // T2: route every call through another instance on another thread, same order
    if scn.batch == "reroute" || (scn.batch == "mixed" && !scn.config.clauses.is_empty() && rng.chance(1, 2) && b.config == scn.config && !has_nested(&scn.config)) {
        let n_threads = rng.range(2, 4);
        let n_clones = rng.range(1, 3);
        let mut threads: Vec<Vec<Op>> = vec![vec![]; n_threads];
        for c in 0..n_clones {
            let src = if c == 0 || rng.chance(1, 2) { 0 } else { rng.range(1, c) as u8 };
            threads[0].push(Op::Clone { src, dst: 1 + c as u8 });
        }
        let prelude = threads[0].len();
        for (i, op) in calls.iter().enumerate() {
            let t = rng.usize(n_threads);
            let mut op = op.clone();
            if let Op::Call { slot, .. } = &mut op {
                *slot = rng.usize(n_clones + 1) as u8;
            }
            threads[t].push(Op::AwaitSeq { n: i as u32 });
            threads[t].push(op);
        }
        threads[0].push(Op::AwaitSeq { n: calls.len() as u32 });
        threads[0].push(Op::Wait { mask: 0xfe });
        for c in 0..n_clones {
            threads[0].push(Op::Drop { slot: 1 + c as u8 });
        }
        threads[0].push(fin.clone());
        b.threads = threads;
        b.knobs.push(("prelude".into(), prelude as i64));
        b.sched = SchedSpec { fine: false, strategy: Strategy::Uniform, seed: rng.next(), sites: 0, choices: vec![] };
        what.push("calls re-routed through clones on other threads");
        probe(&mut stats, "transformation_reroute");
    }
    // T5: relabel two interchangeable methods everywhere (configuration, user programs, history)
    let mut relabel: Option<(M, M)> = None;
    if scn.batch == "relabel" || (scn.batch == "mixed" && b.threads.len() == 1 && rng.chance(1, 3)) {
        let class = *rng.pick(CLASSES);
        let m1 = *rng.pick(class);
        let others: Vec<M> = class.iter().copied().filter(|m| *m != m1).collect();
        let m2 = *rng.pick(&others);
        let sw = |m: M| if m == m1 { m2 } else if m == m2 { m1 } else { m };
        let swp = |p: &mut Prog| {
            for c in p.calls.iter_mut() {
                c.0 = sw(c.0);
            }
        };
        for c in b.config.clauses.iter_mut() {
            c.m = sw(c.m);
            for p in c.patterns.iter_mut() {
                for s in p.segs.iter_mut() {
                    if let Resp::Answers(pr) | Resp::AnswersArc(pr) = &mut s.resp {
                        swp(pr);
                    }
                }
            }
        }
        for (m, pr) in b.config.real_progs.iter_mut() {
            *m = sw(*m);
            swp(pr);
        }
        for t in b.threads.iter_mut() {
            for op in t.iter_mut() {
                if let Op::Call { m, .. } = op {
                    *m = sw(*m);
                }
            }
        }
        relabel = Some((m1, m2));
        what.push("two interchangeable methods relabelled");
        probe(&mut stats, "transformation_relabel");
    }
    // T3: a second, independent mock with its own history interleaved
    let mut second: Option<(Config, Vec<Op>)> = None;
    if scn.batch == "two-mocks" || (scn.batch == "mixed" && b.threads.len() == 1 && rng.chance(1, 2)) {
        if let (Some(cfg2), 1) = (&scn.config2, b.threads.len()) {
            let mut ops2 = vec![];
            for _ in 0..rng.range(1, 8) {
                let m = *rng.pick(C18_POOL);
                ops2.push(Op::Call { slot: world::SLOT_MOCK2, m, x: rng.below(4) as u8, y: if m.info().two_args { rng.below(4) as u8 } else { 0 }, catch: true, fault: None, keep: false });
            }
            ops2.push(Op::Drop { slot: world::SLOT_MOCK2 });
            // interleave, keeping both orders; the first mock's final operation stays last
            let mut merged = vec![];
            let (mut i, mut j) = (0, 0);
            let ops1 = &b.threads[0];
            while i < ops1.len() || j < ops2.len() {
                let take_first = j >= ops2.len() || (i < ops1.len() && rng.chance(1, 2));
                if take_first {
                    merged.push(ops1[i].clone());
                    i += 1;
                } else {
                    merged.push(ops2[j].clone());
                    j += 1;
                }
            }
            b.threads[0] = merged;
            b.config2 = Some(cfg2.clone());
            second = Some((cfg2.clone(), ops2));
            what.push("a second mock used in between");
            probe(&mut stats, "transformation_second_mock");
        }
    }
    if what.is_empty() {
        stats.nontrivial = false;
        return Checked { violations, stats, harness_error: None };
    }
    let res_b = world::run(&b);
    stats.extra_runs += 1;
    if let Some(e) = harness_fail(&res_b) {
        return Checked { violations, stats, harness_error: Some(format!("twin: {e}")) };
    }
    if let Some(viol) = unconstructible(&scn.prop, &res_b) {
        return Checked { violations: vec![viol], stats, harness_error: None };
    }
    let mut ob = observe(&b, &res_b, 0, &b.config);
    if let Some((m1, m2)) = relabel {
        // translate the twin's observations back
        let swap_text = |s: &str| {
            let (d1, d2) = (format!("{m1:?}"), format!("{m2:?}"));
            let (p1, p2) = (m1.path(), m2.path());
            let mut out = s.replace(&p1, "\u{1}").replace(&p2, &p1).replace('\u{1}', &p2);
            out = out.replace(&format!("{d1}("), "\u{2}(").replace(&format!("{d2}("), &format!("{d1}(")).replace("\u{2}(", &format!("{d2}("));
            out = out.replace(&format!("{d1}#"), "\u{3}#").replace(&format!("{d2}#"), &format!("{d1}#")).replace("\u{3}#", &format!("{d2}#"));
            out = out.replace(&format!("Real({d1})"), "\u{4}").replace(&format!("Real({d2})"), &format!("Real({d1})")).replace('\u{4}', &format!("Real({d2})"));
            out
        };
        ob.calls = ob
            .calls
            .iter()
            .map(|c| {
                let t = swap_text(c);
                // multi-line panic texts are kept with sorted lines: sort again after renaming
                match t.split_once(" -> mock panic: ") {
                    Some((head, msg)) => {
                        let mut lines: Vec<&str> = msg.split('\n').collect();
                        lines.sort();
                        format!("{head} -> mock panic: {}", lines.join("\n"))
                    }
                    None => t,
                }
            })
            .collect();
        ob.verdict = ob.verdict.map(|v| match v.strip_prefix("fail: ") {
            Some(rest) => {
                let t = swap_text(rest);
                let mut lines: Vec<&str> = t.split('\n').collect();
                lines.sort();
                format!("fail: {}", lines.join("\n"))
            }
            None => v,
        });
        ob.counts = ob.counts.map(|(mut c, o)| {
            for e in c.iter_mut() {
                e.0 = if e.0 == m1 { m2 } else if e.0 == m2 { m1 } else { e.0 };
            }
            c.sort_by_key(|e| e.0);
            (c, o)
        });
    }
    let key = what.join(" + ");
    if a.calls != ob.calls {
        let i = a.calls.iter().zip(&ob.calls).position(|(x, y)| x != y).unwrap_or(a.calls.len().min(ob.calls.len()));
        violations.push(v(
            "C18",
            "same-outcome-for-every-call",
            key.clone(),
            format!("with {key}: call #{i} gave {:?} originally and {:?} after the transformation ({} vs {} calls recorded)", a.calls.get(i), ob.calls.get(i), a.calls.len(), ob.calls.len()),
        ));
    } else if a.counts != ob.counts {
        violations.push(v("C18", "same-counters", key.clone(), format!("with {key}: counters {:?} vs {:?}", a.counts, ob.counts)));
    } else if a.verdict != ob.verdict {
        violations.push(v("C18", "same-verdict", key.clone(), format!("with {key}: verdict {:?} vs {:?}", a.verdict, ob.verdict)));
    }
    // the second mock behaves as if it were alone
    if let Some((cfg2, ops2)) = second {
        let solo_ops: Vec<Op> = ops2
            .iter()
            .map(|o| match o {
                Op::Call { m, x, y, .. } => Op::Call { slot: 0, m: *m, x: *x, y: *y, catch: true, fault: None, keep: false },
                _ => Op::Drop { slot: 0 },
            })
            .collect();
        let solo = Scenario { batch: "twin".into(), config: cfg2.clone(), config2: None, threads: vec![solo_ops], sched: seq_sched(), knobs: vec![], ..scn.clone() };
        let res_c = world::run(&solo);
        stats.extra_runs += 1;
        if harness_fail(&res_c).is_none() {
            let oc = observe(&solo, &res_c, 0, &cfg2);
            let o2 = observe(&b, &res_b, 1, &cfg2);
            if oc.calls != o2.calls || oc.counts != o2.counts || oc.verdict != o2.verdict {
                violations.push(v(
                    "C18",
                    "distinct-mocks-share-nothing",
                    "second-mock",
                    format!("the second mock, used next to the first one, gave {:?} / {:?} / {:?}; alone it gives {:?} / {:?} / {:?}", o2.calls, o2.counts, o2.verdict, oc.calls, oc.counts, oc.verdict),
                ));
            }
        }
    }
    stats.nontrivial = !a.calls.is_empty();
    Checked { violations, stats, harness_error: None }
}

fn has_nested(cfg: &Config) -> bool {
    cfg.clauses.iter().any(|c| c.patterns.iter().any(|p| p.segs.iter().any(|s| matches!(&s.resp, Resp::Answers(pr) | Resp::AnswersArc(pr) if !pr.calls.is_empty()))))
        || cfg.real_progs.iter().any(|(_, p)| !p.calls.is_empty())
        || cfg.default_progs.iter().any(|(_, p)| !p.calls.is_empty())
}

// ---------------------------------------------------------------------------------------------
// C15, supertraits: a default body that formats `self` through Debug and Display. Both are mirrored
// traits; inside the delegation helper each must reach the same mock through its own entry point.

#[cfg(feature = "stdworld")]
pub fn check_c15_fmt(scn: &Scenario) -> Checked {
    use crate::corpus::FmtT;
    use std::sync::atomic::{AtomicU32, Ordering};
    use std::sync::Arc;
    use unimock::mock::core::fmt::{DebugMock, DisplayMock};
    use unimock::verif::DynClause;
    use unimock::*;

    let mut rng = Rng::new(scn.knob("fmt_seed").unwrap_or(1) as u64);
    let ordered = rng.chance(1, 2);
    let partial = rng.chance(1, 2);
    let via_clone = rng.chance(1, 2);
    let n = rng.range(1, 3);
    let expect_more = rng.chance(1, 4); // one more Debug expected than will be made: verdict must fail
    let xs: Vec<u8> = (0..n).map(|_| rng.below(4) as u8).collect();
    let build = |counter: Arc<AtomicU32>| -> Unimock {
        let mut clauses: Vec<DynClause> = vec![];
        let dbg = {
            let c = counter.clone();
            // (the answers honour what the formatter was asked for: alternate flag, width, alignment)
            Arc::new(move |_: &Unimock, f: &mut std::fmt::Formatter<'_>| write!(f, "D{}{}", if f.alternate() { "#" } else { "" }, c.fetch_add(1, Ordering::SeqCst)))
        };
        let disp = {
            let c = counter.clone();
            Arc::new(move |_: &Unimock, f: &mut std::fmt::Formatter<'_>| f.pad(&format!("S{}", c.fetch_add(1, Ordering::SeqCst))))
        };
        if ordered {
            for _ in 0..n {
                clauses.push(DynClause::new(DebugMock::fmt.next_call(matching!(_)).answers_arc(dbg.clone())));
                clauses.push(DynClause::new(DisplayMock::fmt.next_call(matching!(_)).answers_arc(disp.clone())));
            }
            if expect_more {
                clauses.push(DynClause::new(DebugMock::fmt.next_call(matching!(_)).answers_arc(dbg.clone())));
            }
        } else {
            clauses.push(DynClause::new(DebugMock::fmt.each_call(matching!(_)).answers_arc(dbg.clone()).n_times(n + expect_more as usize)));
            clauses.push(DynClause::new(DisplayMock::fmt.each_call(matching!(_)).answers_arc(disp.clone()).at_least_times(1)));
        }
        if partial {
            Unimock::new_partial(clauses)
        } else {
            Unimock::new(clauses)
        }
    };
    let run_side = |delegated: bool| -> (Vec<String>, String) {
        let u = build(Arc::new(AtomicU32::new(0)));
        let mut outs = vec![];
        {
            let c = if via_clone { Some(u.clone()) } else { None };
            let target: &Unimock = c.as_ref().unwrap_or(&u);
            for x in &xs {
                let r = std::panic::catch_unwind(std::panic::AssertUnwindSafe(|| if delegated { target.show(*x) } else { crate::corpus::fmt_show(target, *x) }));
                outs.push(match r {
                    Ok(s) => s,
                    Err(p) => format!("panic: {:?}", classify_panic(p.as_ref())),
                });
            }
        }
        let verdict = match std::panic::catch_unwind(std::panic::AssertUnwindSafe(move || u.verify())) {
            Ok(()) => "pass".to_string(),
            Err(p) => format!("fail: {:?}", classify_panic(p.as_ref())),
        };
        (outs, verdict)
    };
    let a = run_side(true);
    let b = run_side(false);
    let mut stats = RunStats::default();
    stats.ops = xs.len() as u64 * 2;
    stats.calls = xs.len() as u64 * 4;
    stats.extra_runs = 1;
    stats.nontrivial = true;
    let mut sig = crate::rng::Sig::new();
    sig.add_str(&format!("{ordered}{partial}{via_clone}{n}{expect_more}{xs:?}"));
    stats.shape = sig.0;
    stats.sample = Some(format!("FmtT::show (default body formatting self with {{:?}} and {{}}): ordered={ordered} partial={partial} via_clone={via_clone} args={xs:?} -> {:?}, verdict {}", a.0, a.1));
    *stats.probes.entry("default_body_used_debug_and_display_supertraits".into()).or_default() += 1;
    let mut violations = vec![];
    if a != b {
        violations.push(v(
            "C15",
            "supertrait-calls-evaluated-by-the-same-mock",
            "FmtT::show",
            format!("show() through the default body gave {:?} / {}; formatting the mock directly on a twin gives {:?} / {}", a.0, a.1, b.0, b.1),
        ));
    }
    Checked { violations, stats, harness_error: None }
}
