//! C18, batch "cross": several independent mocks that *use* each other on one thread.
//!
//! "Distinct mocks share nothing, clones share everything": an answer function of mock A calls mock
//! B; B's original is moved into a value that (a clone of) A lends; a third, unrelated mock C is
//! verified afterwards. Every mock's verdict must be about its own history only:
//!   - an error that B induces while A's answer function is running belongs to B; for A it is a
//!     panic of user code (C08: "not recorded and leave verification to judge the counts");
//!   - an original that is released inside another mock's value chain still verifies as an original:
//!     unmet expectations, live clones (C09) - and says so from the drop that released it;
//!   - nothing of it shows up in C.
//! A script world (no scheduler): a seeded script over plain calls, one thread.

use std::panic::{catch_unwind, AssertUnwindSafe};
use std::sync::{Arc, Mutex};

use unimock::*;

use crate::corpus::{Alpha, AlphaMock, Beta, BetaMock};
use crate::oracle::{v, Violation};
use crate::props::{Checked, RunStats};
use crate::rng::Rng;
use crate::spec::Scenario;

/// a lent value that owns another mock's original
pub struct Holder {
    _inner: Unimock,
}

#[unimock(api = XLendMock)]
pub trait XLend {
    fn lend_holder(&self, x: u8) -> &Holder;
}

fn panic_text(p: Box<dyn std::any::Any + Send>) -> String {
    match p.downcast::<String>() {
        Ok(s) => *s,
        Err(p) => p.downcast::<&'static str>().map(|s| s.to_string()).unwrap_or_else(|_| "<user panic>".into()),
    }
}

fn verify(u: Unimock) -> Option<String> {
    catch_unwind(AssertUnwindSafe(move || u.verify())).err().map(panic_text)
}

/// Mock B: `b3` answers 20 + x for x in `accept`, everything else is "no matching pattern"; an optional
/// exact expectation on `b2` that the script may or may not meet.
fn build_b(accept: u8, expect_b2: bool, self_lend: Option<Arc<Mutex<Option<Unimock>>>>) -> Unimock {
    if let Some(cell) = self_lend {
        // B can lend a value that owns a clone of B itself
        let b3 = BetaMock::b3
            .each_call(&move |m| {
                m.func(move |x: &u8, _| (accept >> (*x & 3)) & 1 == 1);
            })
            .answers(&|_, x| 20 + x as u64);
        let lend = XLendMock::lend_holder
            .each_call(matching!(_))
            .answers_arc(Arc::new(move |u: &Unimock, _x: u8| u.make_ref(Holder { _inner: cell.lock().unwrap().take().expect("a clone of B is there") })));
        return if expect_b2 {
            Unimock::new((b3, lend, BetaMock::b2.some_call(matching!(_, _)).returns(7u64)))
        } else {
            Unimock::new((b3, lend))
        };
    }
    let b3 = BetaMock::b3
        .each_call(&move |m| {
            m.func(move |x: &u8, _| (accept >> (*x & 3)) & 1 == 1);
        })
        .answers(&|_, x| 20 + x as u64);
    if expect_b2 {
        Unimock::new((b3, BetaMock::b2.some_call(matching!(_, _)).returns(7u64)))
    } else {
        Unimock::new(b3)
    }
}

struct Outcome {
    violations: Vec<Violation>,
    steps: u64,
    shape: u64,
    sample: String,
    faults: Vec<&'static str>,
}

fn drive(seed: u64) -> Outcome {
    let mut rng = Rng::new(seed);
    let mut violations = vec![];
    let mut log: Vec<String> = vec![];
    let mut faults = vec![];
    let ownership = rng.chance(1, 2);
    let accept = (rng.next() as u8) & 0xf;
    let expect_b2 = rng.chance(1, 2);
    let expect_a1 = rng.chance(1, 2);
    // deep variant: B's original sits at the far end of a chain of clones of A, each owned by a value the
    // next one lent; B may itself have lent a value that owns a clone of B
    let depth = if ownership && rng.chance(1, 3) { rng.range(2, 24) } else { 1 };
    let b_self_lend = ownership && rng.chance(1, 2);
    let b_self_cell: Arc<Mutex<Option<Unimock>>> = Arc::new(Mutex::new(None));
    let b = build_b(accept, expect_b2, if b_self_lend { Some(b_self_cell.clone()) } else { None });
    // what A's answer function reaches B through (taken away before B is verified)
    let b_for_a: Arc<Mutex<Option<Unimock>>> = Arc::new(Mutex::new(Some(b.clone())));
    // B's original, for the variant in which a value lent by A owns it
    let b_original: Arc<Mutex<Option<Unimock>>> = Arc::new(Mutex::new(None));
    let (cell, cell2) = (b_for_a.clone(), b_original.clone());
    let a0 = AlphaMock::a0.each_call(matching!(_)).answers_arc(Arc::new(move |_u: &Unimock, x: u8| {
        let b = cell.lock().unwrap().clone().expect("B is reachable");
        100 + b.b3(x)
    }));
    let holder = XLendMock::lend_holder
        .each_call(matching!(_))
        .answers_arc(Arc::new(move |u: &Unimock, _x: u8| u.make_ref(Holder { _inner: cell2.lock().unwrap().take().expect("B's original is there") })));
    let a = if expect_a1 {
        Unimock::new((a0, holder, AlphaMock::a1.some_call(matching!(_)).returns(5u64)))
    } else {
        Unimock::new((a0, holder))
    };
    // --- the script
    let mut a1_calls = 0u32;
    let mut a0_calls = 0u32;
    let mut b2_calls = 0u32;
    let mut b3_matched = 0u32;
    let mut b_errors: Vec<String> = vec![];
    for _ in 0..rng.range(1, 7) {
        match rng.weighted(&[45, 20, 15, 20]) {
            0 => {
                // A's answer function calls B
                let x = rng.below(4) as u8;
                let r = catch_unwind(AssertUnwindSafe(|| a.a0(x)));
                a0_calls += 1;
                let ok = (accept >> x) & 1 == 1;
                b3_matched += ok as u32;
                match (&r, ok) {
                    (Ok(v), true) if *v == 120 + x as u64 => {}
                    (Err(_), false) => {
                        faults.push("mock_b_fails_inside_answer_function_of_mock_a");
                    }
                    _ => violations.push(v("C18", "cross-call-outcome", "a0", format!("A.a0({x}) -> B.b3({x}) (B accepts: {ok}) gave {:?}", r.as_ref().map_err(|_| "panic")))),
                }
                if let Err(p) = r {
                    b_errors.push(panic_text(p));
                }
                log.push(format!("a0({x})"));
            }
            1 => {
                let x = rng.below(4) as u8;
                let r = catch_unwind(AssertUnwindSafe(|| b.b3(x)));
                b3_matched += ((accept >> x) & 1) as u32;
                if let Err(p) = r {
                    b_errors.push(panic_text(p));
                    faults.push("mock_b_fails_directly");
                }
                log.push(format!("b3({x})"));
            }
            2 if expect_a1 && a1_calls == 0 => {
                let _ = catch_unwind(AssertUnwindSafe(|| a.a1(1)));
                a1_calls += 1;
                log.push("a1".into());
            }
            _ if expect_b2 && b2_calls == 0 && rng.chance(1, 2) => {
                let _ = catch_unwind(AssertUnwindSafe(|| b.b2(1, 1)));
                b2_calls += 1;
                log.push("b2".into());
            }
            _ => {}
        }
    }
    // (a method mentioned in a clause and never matched is an unmet expectation too)
    let a_unmet = (expect_a1 && a1_calls == 0) || a0_calls == 0;
    let b_unmet = (expect_b2 && b2_calls == 0) || b3_matched == 0;
    // --- teardown
    *b_for_a.lock().unwrap() = None; // A's answer function lets go of its clone of B
    let mut shape = crate::rng::Sig::new();
    shape.add_str(&format!("{ownership}{accept}{expect_a1}{expect_b2}{a_unmet}{b_unmet}{}{depth}{b_self_lend}", b_errors.len()));
    let va;
    if ownership {
        // B's original moves into a value lent by a clone of A; a clone of B may stay alive outside
        let b_clone_alive = rng.chance(1, 3);
        let keep = if b_clone_alive { Some(b.clone()) } else { None };
        if b_self_lend {
            *b_self_cell.lock().unwrap() = Some(b.clone());
            if catch_unwind(AssertUnwindSafe(|| {
                let _ = b.lend_holder(0);
            }))
            .is_err()
            {
                violations.push(v("C18", "cross-call-outcome", "lend_holder", "B lending a value that owns a clone of B panicked".to_string()));
            }
            faults.push("released_original_has_lent_a_clone_of_itself");
        }
        let mut inner = b;
        let mut lent_ok = true;
        for _ in 0..depth {
            *b_original.lock().unwrap() = Some(inner);
            let c = a.clone();
            lent_ok &= catch_unwind(AssertUnwindSafe(|| {
                let _ = c.lend_holder(0);
            }))
            .is_ok();
            inner = c;
        }
        let a2 = inner;
        if depth >= 8 {
            faults.push("chain_of_eight_or_more_nested_owners");
        }
        if !lent_ok {
            violations.push(v("C18", "cross-call-outcome", "lend_holder", "lending a value that owns another mock panicked".to_string()));
        }
        // dropping the clone of A releases the holder and with it B's original, which verifies now
        let released = catch_unwind(AssertUnwindSafe(move || drop(a2))).err().map(panic_text);
        let must_fail = b_clone_alive || b_unmet || !b_errors.is_empty();
        faults.push("original_released_inside_another_mocks_value_chain");
        match (&released, must_fail) {
            (None, true) => violations.push(v(
                "C18",
                "released-original-still-verifies",
                if b_clone_alive { "live-clone" } else if !b_errors.is_empty() { "recorded-errors" } else { "unmet" },
                format!("B's original was released by a value that a clone of A lent (clone of B alive: {b_clone_alive}, B unmet: {b_unmet}, B's errors: {}): its verification must fail right there, but the release was silent", b_errors.len()),
            )),
            (Some(msg), false) => violations.push(v("C18", "released-original-still-verifies", "spurious", format!("B was satisfied, yet releasing it panicked: {msg}"))),
            (Some(msg), true) => {
                if !b_clone_alive {
                    if let Some(e) = b_errors.iter().find(|e| !msg.contains(e.as_str())) {
                        violations.push(v("C18", "released-original-still-verifies", "text", format!("B's failure does not contain its error {e:?}: {msg:?}")));
                    }
                }
            }
            (None, false) => {}
        }
        drop(keep);
        log.push(format!("B released inside a value lent by a clone of A (clone of B alive: {b_clone_alive})"));
        va = verify(a);
        judge_a(&mut violations, &va, a_unmet, &b_errors);
    } else {
        drop(b_original);
        // verify A and B in either order; A never lent its holder: that method was never called
        let a_first = rng.chance(1, 2);
        let vb;
        if a_first {
            va = verify(a);
            vb = verify(b);
        } else {
            vb = verify(b);
            va = verify(a);
        }
        judge_a(&mut violations, &va, true, &b_errors);
        let b_must_fail = b_unmet || !b_errors.is_empty();
        match (&vb, b_must_fail) {
            (None, true) => violations.push(v("C18", "own-history-own-verdict", "B", format!("B has {} recorded error(s), unmet: {b_unmet}; its verification passed", b_errors.len()))),
            (Some(msg), false) => violations.push(v("C18", "own-history-own-verdict", "B", format!("B's history is clean and complete, its verification failed: {msg}"))),
            (Some(msg), true) => {
                if let Some(e) = b_errors.iter().find(|e| !msg.contains(e.as_str())) {
                    violations.push(v("C18", "own-history-own-verdict", "B-text", format!("B's failure lacks its error {e:?}: {msg:?}")));
                }
            }
            _ => {}
        }
        log.push(format!("verify {}", if a_first { "A,B" } else { "B,A" }));
    }
    // an unrelated, satisfied mock C verified afterwards on the same thread
    let c = Unimock::new(AlphaMock::a1.each_call(matching!(_)).returns(1u64));
    let _ = c.a1(0);
    if let Some(msg) = verify(c) {
        violations.push(v("C18", "distinct-mocks-share-nothing", "C", format!("an unrelated, satisfied mock verified afterwards on the same thread failed: {msg}")));
    }
    Outcome { steps: log.len() as u64, sample: log.join(", "), violations, shape: shape.0, faults }
}

/// A's own verdict: only its own expectations; B's errors never appear in it
fn judge_a(violations: &mut Vec<Violation>, va: &Option<String>, must_fail: bool, b_errors: &[String]) {
    match (va, must_fail) {
        (None, true) => violations.push(v("C18", "own-history-own-verdict", "A", "A has an unmet expectation of its own, its verification passed".to_string())),
        (Some(msg), false) => violations.push(v("C18", "own-history-own-verdict", "A", format!("A's own history is clean and complete (B's failures happened inside A's answer function, which is user code to A); its verification failed: {msg}"))),
        (Some(msg), true) => {
            if let Some(e) = b_errors.iter().find(|e| msg.contains(e.as_str())) {
                violations.push(v("C18", "own-history-own-verdict", "A-text", format!("A's failure contains an error of B ({e:?}): {msg:?}")));
            }
        }
        _ => {}
    }
}

pub fn check_cross(scn: &Scenario) -> Checked {
    let seed = scn.knob("cross_seed").unwrap_or(1) as u64;
    let mut stats = RunStats::default();
    match catch_unwind(|| drive(seed)) {
        Ok(o) => {
            stats.ops = o.steps;
            stats.calls = o.steps;
            stats.steps = o.steps;
            stats.nontrivial = o.steps >= 2;
            stats.shape = o.shape;
            for f in o.faults {
                *stats.faults.entry(f.to_string()).or_default() += 1;
            }
            stats.sample = Some(format!("three mocks (A's answer calls B; B may be owned by a value A lends; C unrelated): {}", o.sample));
            Checked { violations: o.violations, stats, harness_error: None }
        }
        Err(p) => Checked { violations: vec![], stats, harness_error: Some(format!("cross-mock script panicked outside its catch points: {}", panic_text(p))) },
    }
}
