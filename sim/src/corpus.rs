//! The corpus: traits expanded by the real `#[unimock]` macro at build time, the real (unmock)
//! functions and default bodies they refer to (all written as `run_prog` scripts), and dispatch
//! from a method id to an actual trait-method call.

use std::any::TypeId;
use std::pin::Pin;
use std::rc::Rc;
use std::sync::Arc;

use unimock::private::DefaultImplDelegator;
use unimock::*;

use crate::ctx::*;
use crate::spec::*;

/// Lets default bodies (generic over `Self`) look at the mock state.
pub trait HasSnap {
    fn snap(&self) -> Option<Snap>;
}

impl HasSnap for Unimock {
    fn snap(&self) -> Option<Snap> {
        Some(take_snap(self))
    }
}

impl HasSnap for DefaultImplDelegator {
    fn snap(&self) -> Option<Snap> {
        Some(take_snap(self.as_ref()))
    }
}

// ---------------------------------------------------------------------------------------------
// plain methods

#[unimock(api = AlphaMock, unmock_with = [real_a0, _])]
pub trait Alpha {
    fn a0(&self, x: u8) -> u64;
    fn a1(&self, x: u8) -> u64;
}

pub fn real_a0(u: &Unimock, x: u8) -> u64 {
    run_prog(ProgKind::Real(M::A0), x, 0, &mut ref_port(u))
}

// (b3, a required method that the default bodies call, has a real function too: reaching it through a
// default body must still mean 'evaluated by the mock', not 'the real function')
#[unimock(api = BetaMock, unmock_with = [_, real_b1, _, real_b3], const K: u64 = 5;)]
pub trait Beta: HasSnap {
    /// an associated constant with a default, overridden for the mock through the attribute: default
    /// bodies must see the mock's value (5), not the trait's
    const K: u64 = 0;

    fn b0(&self, x: u8) -> u64 {
        let r = run_prog(ProgKind::DefaultBody(M::B0), x, 0, &mut |req| match req {
            PortReq::Snap => PortResp::Snap(self.snap()),
            PortReq::Call(M::B2, x, y) => PortResp::Val(self.b2(x, y)),
            PortReq::Call(M::B3, x, _) => PortResp::Val(self.b3(x)),
            PortReq::Call(m, ..) => panic!("default body of b0 cannot call {m:?}"),
        });
        // (the result is what the program computed as long as the constant is the configured one)
        if Self::K == 5 {
            r
        } else {
            r ^ 0xDEAD
        }
    }
    fn b1(&self, x: u8) -> u64 {
        run_prog(ProgKind::DefaultBody(M::B1), x, 0, &mut |req| match req {
            PortReq::Snap => PortResp::Snap(self.snap()),
            PortReq::Call(M::B2, x, y) => PortResp::Val(self.b2(x, y)),
            PortReq::Call(M::B3, x, _) => PortResp::Val(self.b3(x)),
            PortReq::Call(m, ..) => panic!("default body of b1 cannot call {m:?}"),
        })
    }
    fn b2(&self, x: u8, y: u8) -> u64;
    fn b3(&self, x: u8) -> u64;
}

pub fn real_b1(u: &Unimock, x: u8) -> u64 {
    run_prog(ProgKind::Real(M::B1), x, 0, &mut ref_port(u))
}

/// (generic over its dependency, as real functions often are: whatever implements the trait can be
/// handed to it - unimock hands it the mock)
pub fn real_b3<T: Beta + 'static>(dep: &T, x: u8) -> u64 {
    match (dep as &dyn std::any::Any).downcast_ref::<Unimock>() {
        Some(u) => run_prog(ProgKind::Real(M::B3), x, 0, &mut ref_port(u)),
        // something else that implements Beta: the program can only reach Beta's own methods
        None => run_prog(ProgKind::Real(M::B3), x, 0, &mut |req| match req {
            PortReq::Snap => PortResp::Snap(dep.snap()),
            PortReq::Call(M::B2, x, y) => PortResp::Val(dep.b2(x, y)),
            PortReq::Call(M::B3, x, _) => PortResp::Val(dep.b3(x)),
            PortReq::Call(..) => PortResp::Val(0),
        }),
    }
}

#[unimock(api = GammaMock, unmock_with = [real_gm, _])]
pub trait Gamma: HasSnap {
    fn gm(&mut self, x: u8) -> u64;
    fn gp(&mut self, x: u8) -> u64 {
        run_prog(ProgKind::DefaultBody(M::Gp), x, 0, &mut |req| match req {
            PortReq::Snap => PortResp::Snap(self.snap()),
            PortReq::Call(M::Gm, x, _) => PortResp::Val(self.gm(x)),
            PortReq::Call(m, ..) => panic!("default body of gp cannot call {m:?}"),
        })
    }
}

#[allow(dead_code)]
pub fn real_gm(u: &mut Unimock, x: u8) -> u64 {
    run_prog(ProgKind::Real(M::Gm), x, 0, &mut mut_port(u))
}

// ---------------------------------------------------------------------------------------------
// receiver kinds (C15)

#[unimock(api = ByValMock)]
pub trait ByVal: HasSnap + Sized {
    fn v_req(&self, x: u8) -> u64;
    fn v_prov(self, x: u8) -> u64 {
        run_prog(ProgKind::DefaultBody(M::VProv), x, 0, &mut |req| match req {
            PortReq::Snap => PortResp::Snap(self.snap()),
            PortReq::Call(M::VReq, x, _) => PortResp::Val(self.v_req(x)),
            PortReq::Call(m, ..) => panic!("default body of v_prov cannot call {m:?}"),
        })
    }
}

#[unimock(api = ByRcMock)]
pub trait ByRc: HasSnap + Sized {
    fn rc_req(&self, x: u8) -> u64;
    fn rc_prov(self: Rc<Self>, x: u8) -> u64 {
        run_prog(ProgKind::DefaultBody(M::RcProv), x, 0, &mut |req| match req {
            PortReq::Snap => PortResp::Snap(self.snap()),
            PortReq::Call(M::RcReq, x, _) => PortResp::Val(self.rc_req(x)),
            PortReq::Call(m, ..) => panic!("default body of rc_prov cannot call {m:?}"),
        })
    }
}

#[unimock(api = ByArcMock)]
pub trait ByArc: HasSnap + Sized {
    fn arc_req(&self, x: u8) -> u64;
    fn arc_prov(self: Arc<Self>, x: u8) -> u64 {
        run_prog(ProgKind::DefaultBody(M::ArcProv), x, 0, &mut |req| match req {
            PortReq::Snap => PortResp::Snap(self.snap()),
            PortReq::Call(M::ArcReq, x, _) => PortResp::Val(self.arc_req(x)),
            PortReq::Call(m, ..) => panic!("default body of arc_prov cannot call {m:?}"),
        })
    }
}

#[unimock(api = ByPinMock)]
pub trait ByPin: HasSnap {
    fn pin_req(self: Pin<&mut Self>, x: u8) -> u64;
    fn pin_prov(mut self: core::pin::Pin<&mut Self>, x: u8) -> u64 {
        run_prog(ProgKind::DefaultBody(M::PinProv), x, 0, &mut |req| match req {
            PortReq::Snap => PortResp::Snap(self.snap()),
            PortReq::Call(M::PinReq, x, _) => PortResp::Val(self.as_mut().pin_req(x)),
            PortReq::Call(m, ..) => panic!("default body of pin_prov cannot call {m:?}"),
        })
    }
}

// required methods that take the receiver by value / Rc / Arc: the delegation helper forwards them
// through `from_delegator`

#[unimock(api = ByVal2Mock)]
pub trait ByVal2: HasSnap + Sized {
    fn v2_req(self, x: u8) -> u64;
    fn v2_prov(self, x: u8) -> u64 {
        let mut me = Some(self);
        run_prog(ProgKind::DefaultBody(M::V2Prov), x, 0, &mut |req| match req {
            PortReq::Snap => PortResp::Snap(me.as_ref().and_then(|s| s.snap())),
            PortReq::Call(M::V2Req, x, _) => PortResp::Val(me.take().expect("by-value self used twice").v2_req(x)),
            PortReq::Call(m, ..) => panic!("default body of v2_prov cannot call {m:?}"),
        })
    }
}

#[unimock(api = ByRc2Mock)]
pub trait ByRc2: HasSnap + Sized {
    fn rc2_req(self: Rc<Self>, x: u8) -> u64;
    fn rc2_prov(self: std::rc::Rc<Self>, x: u8) -> u64 {
        run_prog(ProgKind::DefaultBody(M::Rc2Prov), x, 0, &mut |req| match req {
            PortReq::Snap => PortResp::Snap(self.snap()),
            PortReq::Call(M::Rc2Req, x, _) => PortResp::Val(self.clone().rc2_req(x)),
            PortReq::Call(m, ..) => panic!("default body of rc2_prov cannot call {m:?}"),
        })
    }
}

#[unimock(api = ByArc2Mock)]
pub trait ByArc2: HasSnap + Sized {
    fn arc2_req(self: Arc<Self>, x: u8) -> u64;
    fn arc2_prov(self: std::sync::Arc<Self>, x: u8) -> u64 {
        run_prog(ProgKind::DefaultBody(M::Arc2Prov), x, 0, &mut |req| match req {
            PortReq::Snap => PortResp::Snap(self.snap()),
            PortReq::Call(M::Arc2Req, x, _) => PortResp::Val(self.clone().arc2_req(x)),
            PortReq::Call(m, ..) => panic!("default body of arc2_prov cannot call {m:?}"),
        })
    }
}

// by-value and Rc receivers whose calls resolve to a registered real function (C16)

#[unimock(api = ByValUMock, unmock_with = [real_vu])]
pub trait ByValU {
    fn vu(self, x: u8) -> u64;
}

thread_local! {
    /// instances that a consuming real function let outlive the call (builder style: the caller
    /// gets the mock back); released by the harness when the operation is over
    static KEPT: std::cell::RefCell<Vec<Unimock>> = const { std::cell::RefCell::new(Vec::new()) };
}

pub fn take_kept() -> Vec<Unimock> {
    KEPT.with(|k| std::mem::take(&mut *k.borrow_mut()))
}

pub fn real_vu(u: Unimock, x: u8) -> u64 {
    let r = run_prog(ProgKind::Real(M::Vu), x, 0, &mut ref_port(&u));
    if x & 1 == 1 {
        // the instance outlives the call
        KEPT.with(|k| k.borrow_mut().push(u));
    }
    r
}

#[unimock(api = ByRcUMock, unmock_with = [real_rcu])]
pub trait ByRcU {
    fn rcu(self: Rc<Self>, x: u8) -> u64;
}

pub fn real_rcu(u: Rc<Unimock>, x: u8) -> u64 {
    run_prog(ProgKind::Real(M::RcU), x, 0, &mut ref_port(&u))
}

// a provided method whose body uses the Debug and Display supertraits of `Self` (both are
// mirrored by unimock::mock::core::fmt, so inside the delegation helper they must be evaluated by
// the same mock, each by its own entry point)
#[cfg(feature = "stdworld")]
#[unimock(api = FmtTMock)]
pub trait FmtT: std::fmt::Debug + std::fmt::Display {
    fn show(&self, x: u8) -> String {
        fmt_show(self, x)
    }
}

/// what `FmtT::show` does with `self` (and what a caller holding the mock can do directly): Debug and
/// Display with argument-dependent format specifications (alternate flag, width, alignment)
#[cfg(feature = "stdworld")]
pub fn fmt_show<T: std::fmt::Debug + std::fmt::Display + ?Sized>(t: &T, x: u8) -> String {
    match x & 3 {
        0 => format!("{x}:{:?}|{}", t, t),
        1 => format!("{x}:{:#?}|{:>6}", t, t),
        2 => format!("{x}:{:?}|{:<5}|", t, t),
        _ => format!("{x}:{:#?}|{:^7}|", t, t),
    }
}

// ---------------------------------------------------------------------------------------------
// explicit-parameter unmock form (arguments deliberately listed in swapped order)

// (the argument names are deliberately not in alphabetical order)
#[unimock(api = ExplMock, unmock_with = [real_e0(ay, self, zx)])]
pub trait Expl {
    fn e0(&self, zx: u8, ay: u8) -> u64;
}

pub fn real_e0(y: u8, u: &Unimock, x: u8) -> u64 {
    run_prog(ProgKind::Real(M::E0), x, y, &mut ref_port(u))
}

// ---------------------------------------------------------------------------------------------
// async (C16)

#[unimock(api = AsyncAMock, unmock_with = [real_af, _, _])]
pub trait AsyncA {
    async fn af(&self, x: u8) -> u64;
    async fn ag(&self, x: u8) -> u64;
    fn ai(&self, x: u8) -> impl std::future::Future<Output = u64> + Send;
}

pub async fn real_af(u: &Unimock, x: u8) -> u64 {
    crate::exec::yield_once().await;
    let v = run_prog(ProgKind::Real(M::Af), x, 0, &mut ref_port(u));
    crate::exec::yield_once().await;
    v
}

#[unimock(api = AsyncTMock, unmock_with = [real_at])]
#[async_trait::async_trait]
pub trait AsyncT {
    async fn at(&self, x: u8) -> u64;
}

pub async fn real_at(u: &Unimock, x: u8) -> u64 {
    crate::exec::yield_once().await;
    run_prog(ProgKind::Real(M::At), x, 0, &mut ref_port(u))
}

// ---------------------------------------------------------------------------------------------
// generics (C18)

#[unimock(api = GenMock)]
pub trait Gen<T> {
    fn g(&self, x: T) -> u64;
    /// its signature does not mention `T`: the instantiations are still distinct methods
    fn nt(&self, x: u8) -> u64;
}

#[unimock(api = GenMMock)]
pub trait GenM: HasSnap {
    fn gm<T: 'static>(&self, x: T) -> u64;
    /// a provided generic method
    fn gp<T: 'static + Into<u64> + Copy>(&self, x: T) -> u64 {
        let m = if TypeId::of::<T>() == TypeId::of::<u8>() { M::GpU8 } else { M::GpU16 };
        let xv: u64 = x.into();
        run_prog(ProgKind::DefaultBody(m), xv as u8, 0, &mut |req| match req {
            PortReq::Snap => PortResp::Snap(self.snap()),
            PortReq::Call(M::GmU8, x, _) => PortResp::Val(self.gm::<u8>(x)),
            PortReq::Call(M::GmU16, x, _) => PortResp::Val(self.gm::<u16>(x as u16)),
            PortReq::Call(m, ..) => panic!("default body of gp cannot call {m:?}"),
        })
    }
}

// a trait mocked without `api=`: its MockFn cannot be named, so no clause can mention its method;
// only the rules for unmentioned methods ever apply to it
#[unimock(unmock_with = [real_n0])]
pub trait NoApi {
    fn n0(&self, x: u8) -> u64;
}

pub fn real_n0(u: &Unimock, x: u8) -> u64 {
    run_prog(ProgKind::Real(M::N0), x, 0, &mut ref_port(u))
}

// a generic method whose type parameter is not declared: `impl Trait` in argument position
#[unimock(api = GenIMock)]
pub trait GenI {
    fn gi(&self, x: impl Into<u64> + Copy + 'static) -> u64;
}

// a required method whose answer function clones the instance it is given, and a provided method in
// front of it: through the default body that instance is the delegation helper (C09)
#[unimock(api = StashMock)]
pub trait Stash {
    fn stash_req(&self, x: u8) -> u64;
    fn stash_prov(&self, x: u8) -> u64 {
        self.stash_req(x)
    }
}

thread_local! {
    static STASH: std::cell::RefCell<Vec<Unimock>> = const { std::cell::RefCell::new(Vec::new()) };
}

pub fn stash_put(u: Unimock) {
    STASH.with(|s| s.borrow_mut().push(u));
}

pub fn stash_take() -> Option<Unimock> {
    STASH.with(|s| s.borrow_mut().pop())
}

// a method without parameters: its inputs are zero-sized, its matchers still decide
#[unimock(api = ZeroMock, unmock_with = [real_z0])]
pub trait Zero {
    fn z0(&self) -> u64;
}

pub fn real_z0(u: &Unimock) -> u64 {
    run_prog(ProgKind::Real(M::Z0), 0, 0, &mut ref_port(u))
}

// ---------------------------------------------------------------------------------------------
// a receiver-less provided fn in front of methods with unmock functions: the unmock_with list is
// positional over *all* fn items

#[unimock(api = SkipMock, unmock_with = [_, real_s0, _, real_s2])]
pub trait Skip {
    fn unit() -> u8
    where
        Self: Sized,
    {
        1
    }
    fn s0(&self, x: u8) -> u64;
    fn s1(&self, x: u8) -> u64;
    fn s2(&self, x: u8) -> u64;
}

pub fn real_s0(u: &Unimock, x: u8) -> u64 {
    run_prog(ProgKind::Real(M::S0), x, 0, &mut ref_port(u))
}

pub fn real_s2(u: &Unimock, x: u8) -> u64 {
    run_prog(ProgKind::Real(M::S2), x, 0, &mut ref_port(u))
}

// ---------------------------------------------------------------------------------------------
// an argument whose Debug impl is user code that may panic

pub struct DbgArg(pub u8);

impl std::fmt::Debug for DbgArg {
    fn fmt(&self, f: &mut std::fmt::Formatter<'_>) -> std::fmt::Result {
        let fault = try_with_tl(|t| matches!(t.cur_fault, Some(Fault::DebugPanic))).unwrap_or(false);
        if fault {
            std::panic::panic_any(UserFault::Debug);
        }
        if self.0 == 3 {
            // a long rendering with multi-byte characters (anything that cuts or scans rendered
            // arguments has to cope with it)
            let long: String = std::iter::repeat('\u{436}').take(300).collect();
            write!(f, "{}{}\u{20ac}", self.0, long)
        } else {
            write!(f, "{}", self.0)
        }
    }
}

#[unimock(api = DbgTMock, unmock_with = [real_d0])]
pub trait DbgT {
    fn d0(&self, x: DbgArg) -> u64;
}

/// (falling through to this function must not render the argument: its `Debug` may panic)
pub fn real_d0(u: &Unimock, x: DbgArg) -> u64 {
    run_prog(ProgKind::Real(M::D0), x.0, 0, &mut ref_port(u))
}

// ---------------------------------------------------------------------------------------------
// lending (C13) and owned instrumented values (C12)

use crate::values::*;

#[unimock(api = LendMock)]
pub trait Lend {
    fn lend_a(&self, x: u8) -> &ValA;
    fn lend_b(&self, x: u8) -> &ValB;
    fn lend_mut(&mut self, x: u8) -> &mut ValA;
    fn lent(&self, x: u8) -> &Tracked;
    fn lend_clone(&self, x: u8) -> &Unimock;
    fn lend_z(&self, x: u8) -> &ZTok;
    fn lend_guard(&self, x: u8) -> &GuardVal;
    /// provided: lends through the default-impl delegation helper
    fn lend_via(&self, x: u8) -> &ValA {
        self.lend_a(x)
    }
    /// provided, exclusive receiver: the helper is reached through `AsMut`
    fn lend_via_mut(&mut self, x: u8) -> &ValA {
        self.lend_a(x)
    }
}

pub fn real_own_single(_u: &Unimock, _x: u8) -> Tracked {
    // the real implementation hands out fresh values
    Tracked::new(&tl_tracker(), 3_000_000 + tl_val_id() % 1_000_000)
}

#[unimock(api = OwnMock, unmock_with = [real_own_single, _, _, _, _, _, _, _, _, _, _, _, _])]
pub trait Own {
    fn own_single(&self, x: u8) -> Tracked;
    fn own_multi(&self, x: u8) -> TrackedC;
    fn own_opt(&self, x: u8) -> Option<Tracked>;
    fn own_res(&self, x: u8) -> Result<&u32, Tracked>;
    fn own_tup(&self, x: u8) -> (&u32, TrackedC);
    fn own_tup1(&self, x: u8) -> (&u32, Tracked);
    fn own_vec(&self, x: u8) -> Vec<Result<&u32, Tracked>>;
    fn own_tup3(&self, x: u8) -> (&u32, Tracked, Tracked);
    fn own_deep_opt(&self, x: u8) -> Option<Result<&u32, Tracked>>;
    fn own_deep_poll(&self, x: u8) -> std::task::Poll<Result<&u32, Tracked>>;
    fn own_poll_multi(&self, x: u8) -> std::task::Poll<Result<&u32, TrackedC>>;
    fn own_opt_multi(&self, x: u8) -> Option<Result<&u32, TrackedC>>;
    fn own_unit(&self, x: u8);
}

// ---------------------------------------------------------------------------------------------
// dispatch

/// Call a method that takes `&self`.
pub fn dispatch_ref(u: &Unimock, m: M, x: u8, y: u8) -> u64 {
    match m {
        M::A0 => u.a0(x),
        M::A1 => u.a1(x),
        M::B0 => u.b0(x),
        M::B1 => u.b1(x),
        M::B2 => u.b2(x, y),
        M::B3 => u.b3(x),
        M::VReq => u.v_req(x),
        M::RcReq => u.rc_req(x),
        M::ArcReq => u.arc_req(x),
        M::E0 => u.e0(x, y),
        M::S0 => u.s0(x),
        M::S1 => u.s1(x),
        M::S2 => u.s2(x),
        M::D0 => u.d0(DbgArg(x)),
        M::LendGuard => {
            let _ = u.lend_guard(x);
            7
        }
        M::LendClone => {
            let _ = u.lend_clone(x);
            7
        }
        M::StashReq => u.stash_req(x),
        M::GenU8 => <Unimock as Gen<u8>>::g(u, x),
        M::GenU16 => <Unimock as Gen<u16>>::g(u, x as u16),
        M::GmU8 => u.gm::<u8>(x),
        M::GmU16 => u.gm::<u16>(x as u16),
        M::N0 => u.n0(x),
        M::GiU8 => u.gi(x),
        M::GiU16 => u.gi(x as u16),
        M::GnU8 => <Unimock as Gen<u8>>::nt(u, x),
        M::GnU16 => <Unimock as Gen<u16>>::nt(u, x),
        M::GpU8 => u.gp::<u8>(x),
        M::GpU16 => u.gp::<u16>(x as u16),
        M::Z0 => u.z0(),
        M::Af => crate::exec::block_on(u.af(x)),
        M::Ag => crate::exec::block_on(u.ag(x)),
        M::Ai => crate::exec::block_on(u.ai(x)),
        M::At => crate::exec::block_on(u.at(x)),
        other => panic!("{other:?} needs exclusive access"),
    }
}

/// Call a method that takes `&self`, `&mut self` or `Pin<&mut Self>`.
pub fn dispatch_mut(u: &mut Unimock, m: M, x: u8, y: u8) -> u64 {
    match m {
        M::Gm => Gamma::gm(u, x),
        M::Gp => u.gp(x),
        M::PinReq => Pin::new(u).pin_req(x),
        M::PinProv => Pin::new(u).pin_prov(x),
        other => dispatch_ref(u, other, x, y),
    }
}

/// Call the registered real function of `m` directly (the twin side of C16).
pub fn direct_real(u: &Unimock, m: M, x: u8, y: u8) -> u64 {
    match m {
        M::A0 => real_a0(u, x),
        M::B1 => real_b1(u, x),
        M::B3 => real_b3(u, x),
        M::E0 => real_e0(y, u, x),
        M::S0 => real_s0(u, x),
        M::S2 => real_s2(u, x),
        M::Z0 => real_z0(u),
        M::D0 => real_d0(u, DbgArg(x)),
        M::N0 => real_n0(u, x),
        M::Af => crate::exec::block_on(real_af(u, x)),
        M::At => crate::exec::block_on(real_at(u, x)),
        other => panic!("{other:?} has no real function taking &Unimock"),
    }
}

pub fn direct_real_mut(u: &mut Unimock, m: M, x: u8, _y: u8) -> u64 {
    match m {
        M::Gm => real_gm(u, x),
        other => panic!("{other:?} has no real function taking &mut Unimock"),
    }
}

/// create (not poll) the future of an async corpus method
pub fn async_call<'a>(u: &'a Unimock, m: M, x: u8) -> crate::exec::BoxFut<'a> {
    match m {
        M::Af => Box::pin(u.af(x)),
        M::Ag => Box::pin(u.ag(x)),
        M::Ai => Box::pin(u.ai(x)),
        M::At => u.at(x),
        other => panic!("{other:?} is not async"),
    }
}

pub fn ref_port(u: &Unimock) -> impl FnMut(PortReq) -> PortResp + '_ {
    move |req| match req {
        PortReq::Snap => PortResp::Snap(Some(take_snap(u))),
        PortReq::Call(m, x, y) => PortResp::Val(dispatch_ref(u, m, x, y)),
    }
}

pub fn mut_port(u: &mut Unimock) -> impl FnMut(PortReq) -> PortResp + '_ {
    move |req| match req {
        PortReq::Snap => PortResp::Snap(Some(take_snap(u))),
        PortReq::Call(m, x, y) => PortResp::Val(dispatch_mut(u, m, x, y)),
    }
}

// ---------------------------------------------------------------------------------------------
// TypeId <-> M

fn tid_of<F: MockFn>(_: &F) -> TypeId {
    TypeId::of::<F>()
}

pub fn type_ids() -> &'static Vec<(TypeId, M)> {
    static CELL: std::sync::OnceLock<Vec<(TypeId, M)>> = std::sync::OnceLock::new();
    CELL.get_or_init(|| {
        vec![
            (TypeId::of::<AlphaMock::a0>(), M::A0),
            (TypeId::of::<AlphaMock::a1>(), M::A1),
            (TypeId::of::<BetaMock::b0>(), M::B0),
            (TypeId::of::<BetaMock::b1>(), M::B1),
            (TypeId::of::<BetaMock::b2>(), M::B2),
            (TypeId::of::<BetaMock::b3>(), M::B3),
            (TypeId::of::<GammaMock::gm>(), M::Gm),
            (TypeId::of::<GammaMock::gp>(), M::Gp),
            (TypeId::of::<ByValMock::v_req>(), M::VReq),
            (TypeId::of::<ByValMock::v_prov>(), M::VProv),
            (TypeId::of::<ByRcMock::rc_req>(), M::RcReq),
            (TypeId::of::<ByRcMock::rc_prov>(), M::RcProv),
            (TypeId::of::<ByArcMock::arc_req>(), M::ArcReq),
            (TypeId::of::<ByArcMock::arc_prov>(), M::ArcProv),
            (TypeId::of::<ByPinMock::pin_req>(), M::PinReq),
            (TypeId::of::<ByPinMock::pin_prov>(), M::PinProv),
            (TypeId::of::<ExplMock::e0>(), M::E0),
            (TypeId::of::<SkipMock::s0>(), M::S0),
            (TypeId::of::<SkipMock::s1>(), M::S1),
            (TypeId::of::<SkipMock::s2>(), M::S2),
            (TypeId::of::<DbgTMock::d0>(), M::D0),
            (TypeId::of::<ByValUMock::vu>(), M::Vu),
            (TypeId::of::<ByVal2Mock::v2_req>(), M::V2Req),
            (TypeId::of::<ByVal2Mock::v2_prov>(), M::V2Prov),
            (TypeId::of::<ByRc2Mock::rc2_req>(), M::Rc2Req),
            (TypeId::of::<ByRc2Mock::rc2_prov>(), M::Rc2Prov),
            (TypeId::of::<ByArc2Mock::arc2_req>(), M::Arc2Req),
            (TypeId::of::<ByArc2Mock::arc2_prov>(), M::Arc2Prov),
            (TypeId::of::<ByRcUMock::rcu>(), M::RcU),
            #[cfg(feature = "stdworld")]
            (TypeId::of::<FmtTMock::show>(), M::Show),
            #[cfg(feature = "stdworld")]
            (TypeId::of::<unimock::mock::std::process::TerminationMock::report>(), M::TermReport),
            (TypeId::of::<LendMock::lend_a>(), M::LendA),
            (TypeId::of::<LendMock::lend_b>(), M::LendB),
            (TypeId::of::<LendMock::lend_mut>(), M::LendMut),
            (TypeId::of::<LendMock::lent>(), M::Lent),
            (TypeId::of::<LendMock::lend_clone>(), M::LendClone),
            (TypeId::of::<LendMock::lend_guard>(), M::LendGuard),
            (TypeId::of::<LendMock::lend_via>(), M::LendVia),
            (TypeId::of::<LendMock::lend_via_mut>(), M::LendViaMut),
            (TypeId::of::<LendMock::lend_z>(), M::LendZ),
            (TypeId::of::<OwnMock::own_single>(), M::OwnSingle),
            (TypeId::of::<OwnMock::own_multi>(), M::OwnMulti),
            (TypeId::of::<OwnMock::own_opt>(), M::OwnOpt),
            (TypeId::of::<OwnMock::own_res>(), M::OwnRes),
            (TypeId::of::<OwnMock::own_tup>(), M::OwnTup),
            (TypeId::of::<OwnMock::own_tup1>(), M::OwnTup1),
            (TypeId::of::<OwnMock::own_vec>(), M::OwnVec),
            (TypeId::of::<OwnMock::own_tup3>(), M::OwnTup3),
            (TypeId::of::<OwnMock::own_deep_opt>(), M::OwnDeepOpt),
            (TypeId::of::<OwnMock::own_deep_poll>(), M::OwnDeepPoll),
            (TypeId::of::<OwnMock::own_poll_multi>(), M::OwnPollMulti),
            (TypeId::of::<OwnMock::own_opt_multi>(), M::OwnOptMulti),
            (TypeId::of::<OwnMock::own_unit>(), M::OwnUnit),
            (TypeId::of::<AsyncAMock::af>(), M::Af),
            (TypeId::of::<AsyncAMock::ag>(), M::Ag),
            (TypeId::of::<AsyncAMock::ai>(), M::Ai),
            (TypeId::of::<AsyncTMock::at>(), M::At),
            (tid_of(&GenMock::g.with_types::<u8>()), M::GenU8),
            (tid_of(&GenMock::g.with_types::<u16>()), M::GenU16),
            (tid_of(&GenMMock::gm.with_types::<u8>()), M::GmU8),
            (tid_of(&GenMMock::gm.with_types::<u16>()), M::GmU16),
            (tid_of(&GenIMock::gi.with_types::<u8>()), M::GiU8),
            (tid_of(&GenIMock::gi.with_types::<u16>()), M::GiU16),
            (tid_of(&GenMock::nt.with_types::<u8>()), M::GnU8),
            (tid_of(&GenMock::nt.with_types::<u16>()), M::GnU16),
            (tid_of(&GenMMock::gp.with_types::<u8>()), M::GpU8),
            (tid_of(&GenMMock::gp.with_types::<u16>()), M::GpU16),
            (TypeId::of::<ZeroMock::z0>(), M::Z0),
            (TypeId::of::<StashMock::stash_req>(), M::StashReq),
        ]
    })
}

pub fn m_of_type_id(t: TypeId, trait_ident: &str, method_ident: &str) -> M {
    for (tid, m) in type_ids() {
        if *tid == t {
            return *m;
        }
    }
    panic!("unknown MockFn in snapshot: {trait_ident}::{method_ident}");
}

/// A lent value that owns a clone of the mock that lent it. When it is released (the owner is torn
/// down) its destructor makes one call through that clone and contains whatever the call raises -
/// user code running in the middle of the owner's verification.
pub struct GuardVal {
    pub clone: Unimock,
    pub x: u8,
}

impl Drop for GuardVal {
    fn drop(&mut self) {
        let (clone, x) = (&self.clone, self.x);
        let _ = std::panic::catch_unwind(std::panic::AssertUnwindSafe(|| do_call(M::A1, x & 3, 0, &mut ref_port(clone))));
    }
}
