//! The scheduler: simulated threads are real OS threads, but exactly one of them runs at any time
//! and every hand-over is decided here from the run's PRNG (baton passing: the running thread
//! itself draws the decision, wakes the chosen thread and parks).

use std::cell::Cell;
use std::sync::{Condvar, Mutex};

use unimock::verif::Site;

use crate::rng::{Rng, Sig};
use crate::spec::{SchedSpec, Strategy};

#[derive(Clone, Copy, Debug, PartialEq, Eq)]
pub enum ThState {
    /// not yet at its first scheduling point
    Runnable,
    /// blocked until all threads of the mask are done
    Waiting(u8),
    /// not released yet (thread 0 is still in its prelude)
    Held,
    /// arrived at a lock acquisition while another (descheduled) thread holds a lock
    BlockedOnLock,
    Done,
}

pub const SITE_OP: u8 = 15;
pub const SITE_START: u8 = 14;
pub const SITE_EXEC: u8 = 13;

pub fn site_code(site: Site) -> u8 {
    match site {
        Site::AtomicLoad => 0,
        Site::AtomicStore => 1,
        Site::AtomicRmw => 2,
        Site::Lock => 3,
        Site::CellGet => 4,
        Site::CellSet => 5,
        Site::CellTake => 6,
        Site::Clone => 7,
        Site::Drop => 8,
        Site::StrongCount => 9,
        Site::AfterAtomic => 10,
        Site::AfterLock => 11,
        Site::LockHeld => 12,
        Site::EnterCritical | Site::ExitCritical => 13,
    }
}

pub const ALL_SITES: u16 = 0x1fff;

struct Inner {
    current: Option<usize>,
    states: Vec<ThState>,
    rng: Rng,
    spec: SchedSpec,
    choice_pos: usize,
    steps: u64,
    switches: u64,
    /// recorded decisions: index into the sorted runnable set
    choices: Vec<u8>,
    /// (thread, site code) at every actual context switch
    sig: Sig,
    /// per-site-kind number of yield points reached / switches taken
    reached: [u64; 16],
    switched: [u64; 16],
    prios: Vec<u64>,
    change_points: Vec<u64>,
    capped: bool,
    deadlock: bool,
    all_done: bool,
    /// the thread that was descheduled inside a lock (it holds a real mutex)
    lock_holder: Option<usize>,
    lock_contended: u64,
}

pub struct Sched {
    inner: Mutex<Inner>,
    cvs: Vec<Condvar>,
    done_cv: Condvar,
    pub fine: bool,
    pub sites: u16,
    /// free-running mode (see Strategy::Free)
    pub free: bool,
}

pub const STEP_CAP: u64 = 20_000;

#[derive(Clone, Debug, Default)]
pub struct SchedStats {
    pub steps: u64,
    pub switches: u64,
    pub signature: u64,
    pub reached: [u64; 16],
    pub switched: [u64; 16],
    pub choices: Vec<u8>,
    pub capped: bool,
    pub deadlock: bool,
    pub lock_contended: u64,
}

/// explicit decision meaning "whoever is running keeps running" (written by the schedule minimiser)
pub const STAY: u8 = 255;

thread_local! {
    static CRIT: Cell<u32> = const { Cell::new(0) };
}

impl Sched {
    /// Release the threads that were held back while thread 0 ran its prelude.
    pub fn release_held(&self) {
        let mut g = self.lock();
        for s in g.states.iter_mut() {
            if *s == ThState::Held {
                *s = ThState::Runnable;
            }
        }
        if self.free {
            for cv in &self.cvs {
                cv.notify_all();
            }
        }
    }

    pub fn hold_others(&self) {
        let mut g = self.lock();
        for (i, s) in g.states.iter_mut().enumerate() {
            if i != 0 && *s == ThState::Runnable {
                *s = ThState::Held;
            }
        }
    }

    pub fn new(n_threads: usize, spec: &SchedSpec) -> Self {
        let mut rng = Rng::new(spec.seed);
        let mut prios: Vec<u64> = (0..n_threads as u64).map(|i| 1000 + i).collect();
        rng.shuffle(&mut prios);
        let mut change_points = vec![];
        if let Strategy::Pct(d) = spec.strategy {
            for _ in 0..d {
                change_points.push(1 + rng.below(80));
            }
        }
        Self {
            inner: Mutex::new(Inner {
                current: None,
                states: vec![ThState::Runnable; n_threads],
                rng,
                spec: spec.clone(),
                choice_pos: 0,
                steps: 0,
                switches: 0,
                choices: vec![],
                sig: Sig::new(),
                reached: [0; 16],
                switched: [0; 16],
                prios,
                change_points,
                capped: false,
                deadlock: false,
                all_done: false,
                lock_holder: None,
                lock_contended: 0,
            }),
            cvs: (0..n_threads).map(|_| Condvar::new()).collect(),
            done_cv: Condvar::new(),
            fine: spec.fine && spec.strategy != Strategy::Free,
            sites: spec.sites,
            free: spec.strategy == Strategy::Free,
        }
    }

    fn lock(&self) -> std::sync::MutexGuard<'_, Inner> {
        self.inner.lock().unwrap_or_else(|p| p.into_inner())
    }

    fn runnable(inner: &Inner) -> Vec<usize> {
        inner
            .states
            .iter()
            .enumerate()
            .filter(|(_, s)| **s == ThState::Runnable)
            .map(|(i, _)| i)
            .collect()
    }

    /// draw the next thread to run among the runnable ones
    fn choose(inner: &mut Inner, me: Option<usize>) -> Option<usize> {
        let runnable = Self::runnable(inner);
        if runnable.is_empty() {
            return None;
        }
        let idx = if inner.choice_pos < inner.spec.choices.len() {
            let c = inner.spec.choices[inner.choice_pos] as usize;
            inner.choice_pos += 1;
            if c == STAY as usize {
                me.and_then(|m| runnable.iter().position(|r| *r == m)).unwrap_or(0)
            } else {
                c % runnable.len()
            }
        } else if runnable.len() == 1 {
            0
        } else {
            match inner.spec.strategy {
                Strategy::Uniform => inner.rng.usize(runnable.len()),
                Strategy::Sticky(p) => match me.and_then(|m| runnable.iter().position(|r| *r == m)) {
                    Some(pos) if inner.rng.chance(p as u64, 100) => pos,
                    _ => inner.rng.usize(runnable.len()),
                },
                Strategy::Pct(_) => {
                    let step = inner.steps;
                    if inner.change_points.contains(&step) {
                        if let Some(m) = me {
                            // drop the running thread below everybody else
                            let low = inner.prios.iter().copied().min().unwrap_or(0);
                            inner.prios[m] = low.saturating_sub(1);
                        }
                    }
                    let mut best = 0;
                    for (i, t) in runnable.iter().enumerate() {
                        if inner.prios[*t] > inner.prios[runnable[best]] {
                            best = i;
                        }
                    }
                    best
                }
                Strategy::RoundRobin | Strategy::Free => 0,
                Strategy::Stay => me.and_then(|m| runnable.iter().position(|r| *r == m)).unwrap_or(0),
            }
        };
        inner.choices.push(idx as u8);
        Some(runnable[idx])
    }

    /// Called by a simulated thread before doing anything: wait for the first turn.
    pub fn thread_start(&self, me: usize) {
        let mut g = self.lock();
        if self.free {
            // only the prelude is honoured: wait until thread 0 has released the others
            while g.states[me] == ThState::Held {
                g = self.cvs[me].wait(g).unwrap_or_else(|p| p.into_inner());
            }
            return;
        }
        while g.current != Some(me) {
            g = self.cvs[me].wait(g).unwrap_or_else(|p| p.into_inner());
        }
    }

    /// Called by the harness after all threads are spawned: give the baton to `first`.
    pub fn start(&self, first: usize) {
        if self.free {
            return;
        }
        let mut g = self.lock();
        g.current = Some(first);
        self.cvs[first].notify_one();
    }

    /// A scheduling point. `site` is only recorded.
    pub fn yield_now(&self, me: usize, site: u8) {
        if self.free {
            std::thread::yield_now();
            return;
        }
        let mut g = self.lock();
        debug_assert_eq!(g.current, Some(me));
        g.steps += 1;
        g.reached[site as usize & 15] += 1;
        if g.steps > STEP_CAP {
            g.capped = true;
            return;
        }
        let next = match Self::choose(&mut g, Some(me)) {
            Some(n) => n,
            None => return,
        };
        if next == me {
            return;
        }
        g.switches += 1;
        g.switched[site as usize & 15] += 1;
        g.sig.add(((me as u64) << 8) | site as u64);
        g.sig.add(next as u64);
        g.current = Some(next);
        self.cvs[next].notify_one();
        while g.current != Some(me) {
            g = self.cvs[me].wait(g).unwrap_or_else(|p| p.into_inner());
        }
    }

    /// A yield point while holding a real lock: other threads are kept away from lock acquisitions
    /// until `lock_released`.
    pub fn yield_holding_lock(&self, me: usize) {
        {
            let mut g = self.lock();
            g.lock_holder = Some(me);
        }
        self.yield_now(me, 12);
    }

    pub fn lock_released(&self, me: usize) {
        let mut g = self.lock();
        if g.lock_holder == Some(me) {
            g.lock_holder = None;
            for s in g.states.iter_mut() {
                if *s == ThState::BlockedOnLock {
                    *s = ThState::Runnable;
                }
            }
        }
    }

    /// Called at a lock acquisition site after the ordinary yield: if a descheduled thread holds a
    /// lock, wait (in simulation) until it has released it.
    pub fn acquire_gate(&self, me: usize) {
        let mut g = self.lock();
        while matches!(g.lock_holder, Some(h) if h != me) {
            g.lock_contended += 1;
            g.states[me] = ThState::BlockedOnLock;
            g.steps += 1;
            match Self::choose(&mut g, None) {
                Some(next) => {
                    g.switches += 1;
                    g.sig.add(((me as u64) << 8) | 0xfd);
                    g.sig.add(next as u64);
                    g.current = Some(next);
                    self.cvs[next].notify_one();
                }
                None => {
                    g.deadlock = true;
                    g.states[me] = ThState::Runnable;
                    return;
                }
            }
            while g.current != Some(me) {
                g = self.cvs[me].wait(g).unwrap_or_else(|p| p.into_inner());
            }
        }
    }

    /// Block until all threads of `mask` are done.
    pub fn wait_threads(&self, me: usize, mask: u8) {
        let mut g = self.lock();
        let pending = |g: &Inner| {
            (0..g.states.len()).any(|t| t != me && mask & (1 << t) != 0 && g.states[t] != ThState::Done)
        };
        if !pending(&g) {
            return;
        }
        if self.free {
            while pending(&g) {
                g = self.cvs[me].wait(g).unwrap_or_else(|p| p.into_inner());
            }
            return;
        }
        g.states[me] = ThState::Waiting(mask);
        g.steps += 1;
        match Self::choose(&mut g, None) {
            Some(next) => {
                g.switches += 1;
                g.sig.add(((me as u64) << 8) | 0xfe);
                g.sig.add(next as u64);
                g.current = Some(next);
                self.cvs[next].notify_one();
            }
            None => {
                // nobody can run: the generator produced a cyclic wait
                g.deadlock = true;
                g.states[me] = ThState::Runnable;
                return;
            }
        }
        while g.current != Some(me) {
            g = self.cvs[me].wait(g).unwrap_or_else(|p| p.into_inner());
        }
    }

    /// The thread is finished (normally or by a panic that reached its boundary).
    pub fn thread_done(&self, me: usize) {
        let mut g = self.lock();
        g.states[me] = ThState::Done;
        if self.free {
            if me == 0 {
                for s in g.states.iter_mut() {
                    if *s == ThState::Held {
                        *s = ThState::Runnable;
                    }
                }
            }
            if g.states.iter().all(|s| *s == ThState::Done) {
                g.all_done = true;
            }
            for cv in &self.cvs {
                cv.notify_all();
            }
            self.done_cv.notify_all();
            return;
        }
        if me == 0 {
            for s in g.states.iter_mut() {
                if *s == ThState::Held {
                    *s = ThState::Runnable;
                }
            }
        }
        // wake up waiters whose condition is now met
        for t in 0..g.states.len() {
            if let ThState::Waiting(mask) = g.states[t] {
                let pending = (0..g.states.len())
                    .any(|o| o != t && mask & (1 << o) != 0 && g.states[o] != ThState::Done);
                if !pending {
                    g.states[t] = ThState::Runnable;
                }
            }
        }
        g.steps += 1;
        match Self::choose(&mut g, None) {
            Some(next) => {
                g.switches += 1;
                g.sig.add(((me as u64) << 8) | 0xff);
                g.sig.add(next as u64);
                g.current = Some(next);
                self.cvs[next].notify_one();
            }
            None => {
                g.current = None;
                if g.states.iter().any(|s| *s != ThState::Done) {
                    g.deadlock = true;
                }
                g.all_done = true;
                self.done_cv.notify_all();
            }
        }
    }

    /// Harness: wait until every simulated thread is done. Returns false on timeout.
    pub fn wait_all(&self, timeout: std::time::Duration) -> bool {
        let mut g = self.lock();
        let deadline = std::time::Instant::now() + timeout;
        while !g.all_done {
            let now = std::time::Instant::now();
            if now >= deadline {
                return false;
            }
            let (ng, _) = self
                .done_cv
                .wait_timeout(g, deadline - now)
                .unwrap_or_else(|p| p.into_inner());
            g = ng;
        }
        true
    }

    pub fn stats(&self) -> SchedStats {
        let g = self.lock();
        SchedStats {
            steps: g.steps,
            switches: g.switches,
            signature: g.sig.0,
            reached: g.reached,
            switched: g.switched,
            choices: g.choices.clone(),
            capped: g.capped,
            deadlock: g.deadlock,
            lock_contended: g.lock_contended,
        }
    }
}

/// The process-global hook installed into unimock.
pub fn unimock_hook(site: Site) {
    let target = |code: u8| {
        crate::ctx::TL.with(|tl| match tl.try_borrow() {
            Ok(b) => b.as_ref().and_then(|t| {
                if t.run.sched.fine && t.run.sched.sites & (1 << code) != 0 {
                    Some((t.run.clone(), t.tid as usize))
                } else {
                    None
                }
            }),
            Err(_) => None,
        })
    };
    match site {
        Site::EnterCritical => CRIT.with(|c| c.set(c.get() + 1)),
        Site::ExitCritical => {
            let depth = CRIT.with(|c| {
                c.set(c.get().saturating_sub(1));
                c.get()
            });
            if depth == 0 {
                // whatever lock this thread held is released by now
                let t = crate::ctx::TL.with(|tl| match tl.try_borrow() {
                    Ok(b) => b.as_ref().map(|t| (t.run.clone(), t.tid as usize)),
                    Err(_) => None,
                });
                if let Some((run, tid)) = t {
                    if run.sched.fine {
                        run.sched.lock_released(tid);
                    }
                }
            }
        }
        Site::LockHeld => {
            // the only yield point inside a critical region; only at nesting depth 1 (a once-cell
            // initialiser that takes a lock must not be descheduled)
            if CRIT.with(|c| c.get()) == 1 {
                if let Some((run, tid)) = target(site_code(site)) {
                    run.sched.yield_holding_lock(tid);
                }
            }
        }
        site => {
            if CRIT.with(|c| c.get()) != 0 {
                return;
            }
            let code = site_code(site);
            if let Some((run, tid)) = target(code) {
                run.sched.yield_now(tid, code);
            }
            if site == Site::Lock {
                let t = crate::ctx::TL.with(|tl| match tl.try_borrow() {
                    Ok(b) => b.as_ref().map(|t| (t.run.clone(), t.tid as usize)),
                    Err(_) => None,
                });
                if let Some((run, tid)) = t {
                    if run.sched.fine {
                        run.sched.acquire_gate(tid);
                    }
                }
            }
        }
    }
}

pub fn install_hook() {
    unimock::verif::set_yield_hook(unimock_hook);
}

/// A yield point inside user code the mock calls (matchers, answer functions, real functions):
/// user code may take arbitrarily long, so in the fine world it is a scheduling decision too.
pub fn user_yield() {
    let target = crate::ctx::TL.with(|tl| match tl.try_borrow() {
        Ok(b) => b.as_ref().and_then(|t| if t.run.sched.fine { Some((t.run.clone(), t.tid as usize)) } else { None }),
        Err(_) => None,
    });
    if let Some((run, tid)) = target {
        run.sched.yield_now(tid, SITE_EXEC);
    }
}
