//! Static text that goes into the evidence files: the distinctness rule, which components ran real
//! code and which ran a stub, and the assumptions of each check.

use serde_json::{json, Value};

pub fn rule_for(prop: &str) -> String {
    let world = match prop {
        "C01" | "C02" | "C03" | "C04" | "C07" | "C18" => "coarse world: whole operations serialised by the seeded scheduler (1-4 simulated threads routing calls through the original and clones), faults injected inside operations",
        "C09" => "lifecycle world: instance population events (clone, clone of clone, drop, move to thread, verify, report, no_verify_in_drop) with seeded scheduling at clone / drop / strong-count yield points, plus self-contained operations on plain OS threads that come and go, clone storms and a mocked Termination::report",
        "C11" => "crash world: origin x topology table of dying simulated threads, run in worker processes whose death is an observation; caught-user-panic histories; scratch mocks built and dropped during unwinding; child processes with a standard error that rejects writes",
        "C13" => "lending world: 1-8 simulated threads borrowing one instance, every value-chain cell operation a scheduling decision; long chains and deep structures in child processes with small stacks",
        "C15" | "C16" => "coarse world with direct-call twins; executor world (seeded poll order, cancellation) for the async methods; deep-recursion runs",
        "C20" => "script world: seeded I/O scripts driven through the upstream provided methods of the mirrored traits, on the mock and on a plain struct",
        "C10" | "C08" | "C12" => "fine world: every instrumented atomic operation / lock acquisition / once-cell operation / clone / drop of unimock is a seeded scheduling decision",
        _ => "seeded simulation",
    };
    format!(
        "One evaluation = one simulated run: configuration, history, fault plan and schedule drawn from mix(VERIF_SEED, property, batch, run index) and executed against the real unimock build. {world}. A run is non-trivial if at least two operations executed and at least one call reached the mock (for C03 additionally: the history has no mock-induced panic and ends in a verification of the original). distinct_nontrivial counts distinct hashes of (configuration shape incl. predicates and chains, per-thread operation lists, interleaving signature, set of fault kinds that fired) among non-trivial runs."
    )
}

pub fn components(prop: &str) -> Value {
    let _ = prop;
    json!({
        "real_code": [
            "unimock runtime (eval, counters, teardown, value chain, builder API) compiled from /repo's working tree with --cfg unimock_verif",
            "#[unimock] macro output for the corpus traits (expanded at harness build time)",
            "std::sync::Mutex / once_cell / Arc inside unimock",
            "real OS threads, real unwinding, real catch_unwind, real ThreadId and thread::panicking()",
            "real process boundaries where the observation is the death of a process (child processes for crash scenarios, long chains, deep recursion; a real /dev/full as standard error in the stderr fault)",
            "the harness is compiled like a test build: debug assertions and overflow checks on"
        ],
        "stubs": [
            "thread scheduling decisions (seeded scheduler; exactly one simulated thread runs at a time)",
            "user closures: matchers, answer functions, real (unmock) functions, default bodies are harness scripts with fault points",
            "reference model / twins (harness code, no unimock code)"
        ]
    })
}

pub fn assumptions(prop: &str) -> Vec<String> {
    let mut a = vec![
        "sampling, not enumeration: a clean batch is evidence, not proof".to_string(),
        "the corpus methods stand for methods in general: the runtime sees only TypeIds and boxed closures".to_string(),
        "argument domain {0,1,2,3} (x) and {0..3}x{0..3} (x,y); predicates are arbitrary subsets of it".to_string(),
    ];
    if matches!(prop, "C08" | "C09" | "C10" | "C12" | "C13" | "C15") {
        a.push("yield points cover the shared-state operations of the current tree (instrumented AtomicUsize/OnceCell wrappers, lock acquisitions, Unimock clone/drop, strong_count); a change that adds shared state outside them is only seen by the Miri stage of the thorough tier".to_string());
        a.push("sequential consistency (all atomics in unimock are SeqCst)".to_string());
    }
    a
}
