//! Static text that goes into the evidence files: the distinctness rule, which components ran real
//! code and which ran a stub, and the assumptions of each check.

use serde_json::{json, Value};

pub fn rule_for(prop: &str) -> String {
    let world = match prop {
        "C01" | "C02" | "C03" | "C04" | "C07" | "C18" => "coarse world: whole operations serialised by the seeded scheduler (1-4 simulated threads routing calls through the original and clones), faults injected inside operations",
        "C10" | "C08" | "C12" => "fine world: every instrumented atomic operation / lock acquisition / once-cell operation / clone / drop of unimock is a seeded scheduling decision",
        _ => "seeded simulation",
    };
    format!(
        "One evaluation = one simulated run: configuration, history, fault plan and schedule drawn from mix(VERIF_SEED, property, batch, run index) and executed against the real unimock build. {world}. A run is non-trivial if at least two operations executed and at least one call reached the mock (for C03 additionally: the history has no mock-induced panic and ends in a verification of the original). distinct_nontrivial counts distinct hashes of (configuration shape incl. predicates and chains, per-thread operation lists, interleaving signature, set of fault kinds that fired) among non-trivial runs."
    )
}

pub fn components(prop: &str) -> Value {
    let _ = prop;
    json!({
        "real_code": [
            "unimock runtime (eval, counters, teardown, value chain, builder API) compiled from /repo's working tree with --cfg unimock_verif",
            "#[unimock] macro output for the corpus traits (expanded at harness build time)",
            "std::sync::Mutex / once_cell / Arc inside unimock",
            "real OS threads, real unwinding, real catch_unwind, real ThreadId and thread::panicking()"
        ],
        "stubs": [
            "thread scheduling decisions (seeded scheduler; exactly one simulated thread runs at a time)",
            "user closures: matchers, answer functions, real (unmock) functions, default bodies are harness scripts with fault points",
            "reference model / twins (harness code, no unimock code)"
        ]
    })
}

pub fn assumptions(prop: &str) -> Vec<String> {
    let mut a = vec![
        "sampling, not enumeration: a clean batch is evidence, not proof".to_string(),
        "the corpus methods stand for methods in general: the runtime sees only TypeIds and boxed closures".to_string(),
        "argument domain {0,1,2,3} (x) and {0..3}x{0..3} (x,y); predicates are arbitrary subsets of it".to_string(),
    ];
    if matches!(prop, "C08" | "C09" | "C10" | "C12" | "C13" | "C15") {
        a.push("yield points cover the shared-state operations of the current tree (instrumented AtomicUsize/OnceCell wrappers, lock acquisitions, Unimock clone/drop, strong_count); a change that adds shared state outside them is only seen by the Miri stage of the thorough tier".to_string());
        a.push("sequential consistency (all atomics in unimock are SeqCst)".to_string());
    }
    a
}
