//! Crash world (C11): a panic originates at one of many points while one of several instance
//! topologies is on the unwinding thread's stack. Scenarios run in worker processes; a worker
//! that dies (double panic -> abort) names the scenario it was executing, which is then re-run
//! alone in a child process (the replay). Survivors are judged in-process: the dying thread must end
//! with exactly the origin's panic. Second half: after *caught* user panics the mock stays usable
//! and verification reflects the calls actually matched.

use crate::ctx::*;
use crate::gen::*;
use crate::oracle::{final_ops, unmet, v, Violation};
use crate::props::{base_stats, Checked, RunStats};
use crate::rng::Rng;
use crate::spec::*;
use crate::world;

pub const TOPOLOGIES: &[&str] = &[
    "original-only",
    "clone-same-thread-original-first",
    "clone-same-thread-clone-first",
    "clone-alive-on-another-thread",
    "original-unwinding-on-foreign-thread",
    "original-inside-by-value-default-method",
    "clone-alive-in-shared-slot",
    "clone-only",
];

pub const ORIGINS: &[&str] = &[
    "user-panic-between-calls",
    "matcher",
    "answer-function",
    "unmock-function",
    "default-body",
    "argument-debug",
    "return-value-clone",
    "mock-induced",
];

pub fn gen_c11(base_seed: u64, batch: &str, run: u64, rng: &mut Rng) -> Scenario {
    if batch == "caught-user-panics" {
        return gen_c11_caught(base_seed, batch, run, rng);
    }
    // the thorough tier walks the origin x topology table systematically, the quick tier samples it
    let topo = (run as usize) % TOPOLOGIES.len();
    let origin = (run as usize / TOPOLOGIES.len()) % ORIGINS.len();
    let mut co = CfgOpts::default();
    co.pool = vec![M::A0, M::A1, M::B0, M::B1, M::B2, M::B3, M::D0];
    co.max_methods = 3;
    co.max_patterns = 3;
    co.with_mut = false;
    co.nested_calls = rng.chance(1, 2);
    co.resp_weights = [30, 4, 1, 25, 10, 15, 15];
    let mut cfg = gen_config(rng, &co);
    cfg.specials = vec![Special::OwnMulti { quant: Quant::AtLeast(0), each_call: true, id: 102 }];
    if topo == 5 {
        // by-value provided method whose body makes required-method calls
        for (m, p) in cfg.default_progs.iter_mut() {
            if *m == M::VProv {
                p.calls = vec![(M::VReq, rng.below(4) as u8, 0), (M::VReq, rng.below(4) as u8, 0)];
            }
        }
        if rng.chance(1, 2) {
            cfg.clauses.push(ClauseSpec {
                m: M::VReq,
                form: Form::EachCall,
                patterns: vec![PatternSpec { pred: (rng.next() as u32) & 0xf, has_matcher: true, macro_form: false, segs: vec![Seg { resp: Resp::Returns, quant: Quant::Unq }] }],
            });
        }
    }
    let st = Steer::new(&cfg);
    // the dying thread and what it owns on its stack (dropped in this order while unwinding)
    let (dying, mut t0, mut t1): (usize, Vec<Op>, Vec<Op>) = match topo {
        0 => (0, vec![Op::Hold { slot: 0 }], vec![]),
        1 => (0, vec![Op::Clone { src: 0, dst: 1 }, Op::Hold { slot: 0 }, Op::Hold { slot: 1 }], vec![]),
        2 => (0, vec![Op::Clone { src: 0, dst: 1 }, Op::Hold { slot: 1 }, Op::Hold { slot: 0 }], vec![]),
        3 => (0, vec![Op::Clone { src: 0, dst: 1 }, Op::Hold { slot: 0 }], vec![Op::Hold { slot: 1 }, Op::Wait { mask: 1 }]),
        4 => (1, vec![Op::Clone { src: 0, dst: 1 }], vec![Op::Hold { slot: 0 }]),
        5 => (0, vec![], vec![]),
        6 => (0, vec![Op::Clone { src: 0, dst: 1 }, Op::Hold { slot: 0 }], vec![]),
        _ => (1, vec![Op::Clone { src: 0, dst: 1 }], vec![Op::Hold { slot: 1 }]),
    };
    let prelude = if matches!(topo, 1 | 2 | 3 | 4 | 6 | 7) { 1 } else { 0 };
    // calls before the crash go through an instance that is still in a shared slot, or (for held
    // instances) are skipped: keep one more clone in a slot for calling
    let call_slot: u8 = 2;
    t0.insert(prelude.min(t0.len()), Op::Clone { src: 0, dst: call_slot });
    let prelude = prelude + 1;
    let body = if dying == 0 { &mut t0 } else { &mut t1 };
    // a few ordinary (caught) calls first: they decide met/unmet and may record errors
    for _ in 0..rng.usize(4) {
        let (m, x, y) = if !st.flat.patterns.is_empty() && rng.chance(2, 3) {
            let p = rng.pick(&st.flat.patterns).clone();
            let (x, y) = st.args_for(rng, p.uid).unwrap_or((rng.below(4) as u8, 0));
            (p.m, x, y)
        } else {
            (*rng.pick(&[M::A0, M::A1, M::B3]), rng.below(4) as u8, 0)
        };
        body.push(Op::Call { slot: call_slot, m, x, y, catch: true, fault: None, keep: false });
    }
    // the crash
    let pick_call = |rng: &mut Rng, want: &dyn Fn(Pred) -> bool| -> Option<(M, u8, u8)> {
        let mut cands = vec![];
        for m in [M::A0, M::A1, M::B0, M::B1, M::B2, M::B3] {
            for x in 0..4u8 {
                let y = 0;
                if want(st.predict(&cfg, m, x, y)) {
                    cands.push((m, x, y));
                }
            }
        }
        if cands.is_empty() {
            None
        } else {
            Some(*rng.pick(&cands))
        }
    };
    let crash: Op = if topo == 5 {
        // inside the by-value default method: a nested required call fails, or the body itself panics
        let fault = if rng.chance(1, 2) { Some(Fault::ProgPanic { nth: 0, pos: rng.below(3) as u8 }) } else { None };
        Op::Call { slot: 0, m: M::VProv, x: rng.below(4) as u8, y: 0, catch: false, fault, keep: false }
    } else {
        match origin {
            0 => Op::UserPanic { catch: false },
            1 => match pick_call(rng, &|p| matches!(p, Pred::Pattern(_))) {
                Some((m, x, y)) if !st.flat.ordered(m) => {
                    let uid = st.first_accepting(m, x, y).unwrap_or(0);
                    Op::Call { slot: call_slot, m, x, y, catch: false, fault: Some(Fault::MatcherPanic { uid }), keep: false }
                }
                _ => Op::UserPanic { catch: false },
            },
            2 | 3 | 4 => {
                let (m, x) = match origin {
                    3 => (M::A0, rng.below(4) as u8),
                    4 => (M::B0, rng.below(4) as u8),
                    _ => pick_call(rng, &|p| matches!(p, Pred::Pattern(_))).map(|c| (c.0, c.1)).unwrap_or((M::A0, 0)),
                };
                Op::Call { slot: call_slot, m, x, y: 0, catch: false, fault: Some(Fault::ProgPanic { nth: 0, pos: rng.below(2) as u8 }), keep: false }
            }
            5 => Op::Call { slot: call_slot, m: M::D0, x: rng.below(4) as u8, y: 0, catch: false, fault: Some(Fault::DebugPanic), keep: false },
            6 => Op::Own { slot: call_slot, which: OwnKind::Multi, x: 0, catch: false, die_with_value: false, fault: Some(Fault::ClonePanic) },
            // a mock-induced error whose message renders a long, non-ASCII argument
            _ if rng.chance(1, 4) && !cfg.partial => Op::Call { slot: call_slot, m: M::D0, x: 3, y: 0, catch: false, fault: None, keep: false },
            _ => match pick_call(rng, &|p| p == Pred::MockPanic) {
                Some((m, x, y)) => Op::Call { slot: call_slot, m, x, y, catch: false, fault: None, keep: false },
                None => Op::Call { slot: call_slot, m: M::E0, x: 0, y: 0, catch: false, fault: None, keep: false },
            },
        }
    };
    body.push(crash);
    // threads that survive tidy up what is left
    if dying == 1 {
        t0.push(Op::Wait { mask: 2 });
    }
    let mut threads = vec![t0];
    if !t1.is_empty() || dying == 1 {
        threads.push(t1);
    }
    if dying == 1 && matches!(topo, 7) {
        // the original survives on thread 0
        threads[0].push(Op::Drop { slot: call_slot });
        threads[0].push(Op::Drop { slot: 0 });
    }
    // a mock that is born and dropped inside somebody's unwinding (a fixture destructor)
    if rng.chance(1, 8) {
        let t = rng.usize(threads.len());
        let at = if t == 0 { prelude.min(threads[0].len()) } else { 0 };
        threads[t].insert(at, Op::UnwindScratch { unmet: rng.chance(2, 3), with_clone: rng.chance(1, 2) });
    }
    let mut knobs = vec![("prelude".into(), prelude as i64), ("topology".into(), topo as i64), ("origin".into(), origin as i64), ("dying_thread".into(), dying as i64)];
    // environment fault: the process's stderr cannot be written (full device). Dropping a mock on an
    // unwinding thread must not depend on it. (report() prints its findings to stderr by design, so
    // these runs verify explicitly instead.)
    if rng.chance(1, 16) && std::path::Path::new("/dev/full").exists() {
        knobs.push(("isolated".into(), 1));
        knobs.push(("stderr_full".into(), 1));
        for t in threads.iter_mut() {
            for op in t.iter_mut() {
                if let Op::Report { slot } = op {
                    *op = Op::Verify { slot: *slot };
                }
            }
        }
    }
    Scenario {
        prop: "C11".into(),
        base_seed,
        run,
        batch: batch.into(),
        config: cfg,
        config2: None,
        threads,
        sched: SchedSpec { fine: false, strategy: Strategy::Uniform, seed: rng.next(), sites: 0, choices: vec![] },
        knobs,
    }
}

fn gen_c11_caught(base_seed: u64, batch: &str, run: u64, rng: &mut Rng) -> Scenario {
    let mut co = CfgOpts::default();
    co.max_methods = 3;
    co.max_patterns = 3;
    co.ordered_pct = 40;
    co.resp_weights = [45, 4, 1, 35, 0, 8, 7];
    let cfg = gen_config(rng, &co);
    let mut ho = HistOpts::default();
    ho.max_threads = 2;
    ho.fault_every = 2;
    ho.avoid_mock_panics = true;
    ho.finish_weights = [50, 35, 15];
    let (mut threads, prelude) = gen_history(rng, &cfg, &ho);
    let mut cfg = cfg;
    if rng.chance(1, 3) {
        // a multi-use return value whose Clone panics once (caught); the pattern must stay usable
        cfg.specials = vec![Special::OwnMulti { quant: Quant::AtLeast(0), each_call: true, id: 102 }];
        let own = |fault| Op::Own { slot: 0, which: OwnKind::Multi, x: 0, catch: true, die_with_value: false, fault };
        let mut seq = vec![];
        if rng.chance(1, 2) {
            seq.push(own(None));
        }
        seq.push(own(Some(Fault::ClonePanic)));
        for _ in 0..rng.range(1, 2) {
            seq.push(own(None));
        }
        // somewhere between the prelude and thread 0's teardown operations
        let end = threads[0].iter().position(|o| matches!(o, Op::Wait { .. } | Op::Drop { .. } | Op::Verify { .. } | Op::Report { .. })).unwrap_or(threads[0].len());
        let at = rng.range(prelude.min(end), end);
        for (k, o) in seq.into_iter().enumerate() {
            threads[0].insert(at + k, o);
        }
    }
    Scenario {
        prop: "C11".into(),
        base_seed,
        run,
        batch: batch.into(),
        config: cfg,
        config2: None,
        threads,
        sched: gen_sched(rng, false),
        knobs: vec![("prelude".into(), prelude as i64)],
    }
}

pub fn check_c11(scn: &Scenario) -> Checked {
    let res = world::run(scn);
    let mut stats: RunStats = base_stats(scn, &res);
    if res.timed_out || res.sched.deadlock {
        return Checked { violations: vec![], stats, harness_error: Some("run timed out or deadlocked".into()) };
    }
    if let Some(e) = &res.build_error {
        return Checked { violations: vec![], stats, harness_error: Some(format!("mock construction failed: {e}")) };
    }
    let mut violations: Vec<Violation> = vec![];
    let probe = |st: &mut RunStats, k: String| *st.probes.entry(k).or_default() += 1;
    if scn.threads.iter().flatten().any(|o| matches!(o, Op::UnwindScratch { .. })) && res.log.ops.iter().any(|o| matches!(scn.threads.get(o.thread as usize).and_then(|t| t.get(o.index as usize)), Some(Op::UnwindScratch { .. }))) {
        *stats.faults.entry("mock_built_and_dropped_while_unwinding".into()).or_default() += 1;
    }
    if scn.knob("stderr_full") == Some(1) {
        *stats.faults.entry("stderr_rejects_every_write".into()).or_default() += 1;
    }
    if scn.batch == "caught-user-panics" {
        // the mock stays usable and verification reflects the calls actually matched
        let flat = scn.config.flatten();
        for c in &res.log.calls {
            let (Some(pre), Some(post)) = (&c.pre, &c.post) else { continue };
            if let Some(Outcome::UserPanic(UserFault::Matcher { uid })) = &c.outcome {
                if c.prog.is_none() && pre.counts != post.counts {
                    violations.push(v(
                        "C11",
                        "panicking-matcher-matches-nothing",
                        if flat.ordered(c.m) { "ordered" } else { "unordered" },
                        format!("the matcher of pattern {} panicked during {:?}({},{}), the panic was caught; yet a match was counted: {:?} -> {:?}", crate::build::pat_name(*uid), c.m, c.x, c.y, pre.counts, post.counts),
                    ));
                }
                probe(&mut stats, "caught_matcher_panic".into());
            }
            if matches!(c.outcome, Some(Outcome::UserPanic(UserFault::Prog { .. }))) && c.parent.is_none() {
                probe(&mut stats, "caught_user_program_panic".into());
            }
        }
        // a caught panic in the user's Clone of a multi-use return value: later requests still work
        let mut clone_panicked = false;
        for o in &res.log.ops {
            let Some(Op::Own { fault, .. }) = scn.threads.get(o.thread as usize).and_then(|t| t.get(o.index as usize)) else { continue };
            if fault.is_some() {
                if matches!(o.result, OpResult::UserPanicked(_)) {
                    clone_panicked = true;
                    probe(&mut stats, "caught_clone_panic".into());
                    *stats.faults.entry("clone_panic".into()).or_default() += 1;
                }
            } else if clone_panicked {
                probe(&mut stats, "request_after_caught_clone_panic".into());
                if !matches!(o.result, OpResult::Value(_)) {
                    violations.push(v(
                        "C11",
                        "usable-after-caught-user-panic",
                        "return-value-clone",
                        format!("the Clone of a multi-use return value panicked once and the panic was caught; the next request of the same response must work, got {:?}", o.result),
                    ));
                }
            }
        }
        let any_user = clone_panicked || res.log.calls.iter().any(|c| matches!(c.outcome, Some(Outcome::UserPanic(_))));
        let any_mock = res.log.calls.iter().any(|c| matches!(c.outcome, Some(Outcome::MockPanic(_))));
        for (o, op) in final_ops(scn, &res) {
            let Some(pre) = &o.pre else { continue };
            if any_mock || !pre.errors.is_empty() {
                continue;
            }
            let (p, m) = unmet(&flat, pre);
            let expect_fail = !p.is_empty() || !m.is_empty();
            if !crate::oracle::ordinary_verdict_expected(scn, &res.log, o) {
                continue;
            }
            let failed = match &o.result {
                OpResult::Panicked(_) | OpResult::ExitCode(false) => true,
                OpResult::Quiet | OpResult::ExitCode(true) => false,
                _ => continue,
            };
            if any_user {
                probe(&mut stats, "verdict_after_caught_user_panic".into());
            }
            if expect_fail != failed {
                violations.push(v(
                    "C11",
                    "verification-reflects-calls-actually-matched",
                    format!("{:?}", std::mem::discriminant(op)),
                    format!("after caught user panics the counts are {:?}: verification should {}, but {:?}", pre.counts, if expect_fail { "fail" } else { "pass" }, o.result),
                ));
            }
        }
        stats.nontrivial = any_user;
        return Checked { violations, stats, harness_error: None };
    }
    // crash batch, survivor side: the dying thread ended with the origin's panic and nothing else
    let dying = scn.knob("dying_thread").unwrap_or(0) as u8;
    let crash_op = scn.threads.get(dying as usize).and_then(|t| t.iter().rev().find(|o| matches!(o, Op::Call { catch: false, .. } | Op::UserPanic { catch: false } | Op::Own { catch: false, .. })));
    let end = res.log.thread_ends.iter().find(|(t, _)| *t == dying).map(|(_, e)| e.clone());
    let died = !matches!(end, Some(OpResult::Done) | None);
    if died {
        let topo = TOPOLOGIES[scn.knob("topology").unwrap_or(0) as usize % TOPOLOGIES.len()];
        let origin = ORIGINS[scn.knob("origin").unwrap_or(0) as usize % ORIGINS.len()];
        probe(&mut stats, format!("died/{topo}"));
        probe(&mut stats, format!("origin/{origin}"));
        *stats.faults.entry(format!("crash:{origin}")).or_default() += 1;
        // what the crashing operation itself raised
        let raised = match crash_op {
            Some(Op::UserPanic { .. }) => Some(OpResult::UserPanicked(UserFault::Body)),
            Some(Op::Call { .. }) | Some(Op::Own { .. }) => {
                let idx = scn.threads[dying as usize].iter().rposition(|o| Some(o) == crash_op).unwrap_or(0);
                match crash_op {
                    Some(Op::Own { .. }) => res.log.ops.iter().find(|o| o.thread == dying && o.index as usize == idx).map(|o| o.result.clone()),
                    _ => res.log.calls.iter().find(|c| c.op == (dying, idx as u16) && c.parent.is_none()).and_then(|c| match &c.outcome {
                        Some(Outcome::MockPanic(m)) => Some(OpResult::Panicked(m.clone())),
                        Some(Outcome::UserPanic(f)) => Some(OpResult::UserPanicked(*f)),
                        _ => None,
                    }),
                }
            }
            _ => None,
        };
        if let (Some(r), Some(e)) = (&raised, &end) {
            if r != e {
                violations.push(v(
                    "C11",
                    "thread-reports-the-original-panic",
                    format!("{topo}/{origin}"),
                    format!("the thread was unwinding from {r:?} but ended with {e:?}"),
                ));
            }
        }
        // no other thread may have panicked
        for (t, e) in &res.log.thread_ends {
            if *t != dying && !matches!(e, OpResult::Done) {
                violations.push(v("C11", "other-threads-unaffected", format!("{topo}/{origin}"), format!("thread {t} ended with {e:?}")));
            }
        }
        // instances dropped while unwinding: silently (a panic there would have aborted the process)
        let unmet_any = res.log.ops.iter().any(|o| o.original == Some(true));
        let _ = unmet_any;
    }
    stats.nontrivial = died;
    Checked { violations, stats, harness_error: None }
}
