//! Instrumented value types: every construction, clone and drop is recorded in the run's tracker.

use std::sync::atomic::{AtomicU32, Ordering};
use std::sync::{Arc, Mutex};

use serde::{Deserialize, Serialize};

#[derive(Clone, Copy, Debug, Serialize, Deserialize, PartialEq, Eq)]
pub enum TrackKind {
    Created,
    ClonedFrom(u32),
    Dropped,
}

#[derive(Clone, Debug, Serialize, Deserialize)]
pub struct TrackEv {
    pub id: u32,
    pub kind: TrackKind,
    pub step: u64,
    /// simulated thread, -1 = harness
    pub thread: i16,
    /// was the thread unwinding?
    pub panicking: bool,
}

#[derive(Default)]
pub struct Tracker {
    pub events: Mutex<Vec<TrackEv>>,
    pub next_clone_id: AtomicU32,
    /// id of the one value of this run whose destructor panics (0: none); fires once, never on a
    /// thread that is already unwinding
    pub bomb: AtomicU32,
}

impl Tracker {
    pub fn new() -> Arc<Self> {
        Arc::new(Self { events: Mutex::new(vec![]), next_clone_id: AtomicU32::new(1_000_000), bomb: AtomicU32::new(0) })
    }
    pub fn record(&self, id: u32, kind: TrackKind) {
        let (step, thread) = crate::ctx::try_with_tl(|t| (t.run.tick(), t.tid as i16)).unwrap_or((u64::MAX, -1));
        self.events.lock().unwrap_or_else(|p| p.into_inner()).push(TrackEv {
            id,
            kind,
            step,
            thread,
            panicking: std::thread::panicking(),
        });
    }
    pub fn take(&self) -> Vec<TrackEv> {
        std::mem::take(&mut *self.events.lock().unwrap_or_else(|p| p.into_inner()))
    }
}

pub const CANARY: u64 = 0x5A5A_1234_8765_A5A5;

macro_rules! tracked_type {
    ($name:ident { $($extra:ident : $ty:ty = $init:expr),* }) => {
        pub struct $name {
            pub id: u32,
            pub canary: u64,
            $(pub $extra: $ty,)*
            tracker: Arc<Tracker>,
        }
        impl $name {
            pub fn new(tracker: &Arc<Tracker>, id: u32) -> Self {
                tracker.record(id, TrackKind::Created);
                Self { id, canary: CANARY ^ id as u64, $($extra: $init,)* tracker: tracker.clone() }
            }
            pub fn intact(&self) -> bool {
                self.canary == CANARY ^ self.id as u64
            }
        }
        impl Drop for $name {
            fn drop(&mut self) {
                self.tracker.record(self.id, TrackKind::Dropped);
                if self.id != 0 && !std::thread::panicking() && crate::ctx::try_with_tl(|_| ()).is_some() && self.tracker.bomb.compare_exchange(self.id, 0, Ordering::SeqCst, Ordering::SeqCst).is_ok() {
                    panic!("the destructor of lent value {} panics", self.id);
                }
            }
        }
    };
}

tracked_type!(ValA {});
tracked_type!(ValB { pad: [u64; 3] = [7; 3] });
tracked_type!(Tracked {});
tracked_type!(TrackedC {});

impl Clone for TrackedC {
    fn clone(&self) -> Self {
        let fault = crate::ctx::try_with_tl(|t| matches!(t.cur_fault, Some(crate::spec::Fault::ClonePanic))).unwrap_or(false);
        if fault {
            std::panic::panic_any(crate::ctx::UserFault::Clone);
        }
        let id = self.tracker.next_clone_id.fetch_add(1, Ordering::SeqCst);
        self.tracker.record(id, TrackKind::ClonedFrom(self.id));
        Self { id, canary: CANARY ^ id as u64, tracker: self.tracker.clone() }
    }
}

/// the tracker of the run the current simulated thread belongs to
pub fn tl_tracker() -> Arc<Tracker> {
    crate::ctx::with_tl(|t| t.run.tracker.clone())
}

/// value id chosen by the operation that is currently executing on this thread
pub fn tl_val_id() -> u32 {
    crate::ctx::with_tl(|t| t.cur_val)
}

/// A zero-sized lent value with a destructor. It cannot carry an id: constructions and drops are
/// counted process-wide and compared per run.
pub static ZST_CREATED: AtomicU32 = AtomicU32::new(0);
pub static ZST_DROPPED: AtomicU32 = AtomicU32::new(0);

pub struct ZTok;

impl ZTok {
    pub fn new() -> Self {
        ZST_CREATED.fetch_add(1, Ordering::SeqCst);
        ZTok
    }
}

impl Drop for ZTok {
    fn drop(&mut self) {
        ZST_DROPPED.fetch_add(1, Ordering::SeqCst);
    }
}
