//! Lending world check (C13) and lifecycle world (C09).

use std::collections::BTreeMap;

use crate::ctx::*;
use crate::gen::*;
use crate::oracle::{v, Violation};
use crate::props::{base_stats, Checked, RunStats};
use crate::rng::Rng;
use crate::spec::*;
use crate::values::*;
use crate::world::{self};

pub const LENT_ID: u32 = 900_000;

pub fn lending_config(with_plain: bool, rng: &mut Rng) -> Config {
    let mut cfg = if with_plain {
        let mut co = CfgOpts::default();
        co.max_methods = 1;
        co.max_patterns = 2;
        co.with_mut = false;
        co.nested_calls = false;
        gen_config(rng, &co)
    } else {
        Config::default()
    };
    cfg.specials = vec![Special::LendA, Special::LendB, Special::LendMut, Special::Lent { id: LENT_ID }, Special::LendClone, Special::LendZ];
    cfg
}

pub fn gen_c13(base_seed: u64, batch: &str, run: u64, rng: &mut Rng) -> Scenario {
    let big = batch == "long-chains";
    let mut cfg = lending_config(false, rng);
    // one instance ends inside a by-value provided method whose default body hands `self` on to a
    // by-value required method: what it lent (itself or through its helper) stays until that method's
    // answer function has run
    let by_value_end = !big && rng.chance(1, 4);
    if by_value_end {
        cfg.clauses.push(ClauseSpec {
            m: M::V2Req,
            form: Form::EachCall,
            patterns: vec![PatternSpec { pred: 0xf, has_matcher: true, macro_form: false, segs: vec![Seg { resp: Resp::Answers(Prog::default()), quant: Quant::Unq }] }],
        });
        cfg.default_progs.retain(|(m, _)| *m != M::V2Prov);
        cfg.default_progs.push((M::V2Prov, Prog { calls: vec![(M::V2Req, 0, 0)] }));
    }
    let n_threads = if rng.chance(1, 4) { 1 } else { rng.range(2, if big { 3 } else { 8 }) };
    let n_clones = rng.usize(3);
    let mut threads: Vec<Vec<Op>> = vec![vec![]; n_threads];
    for c in 0..n_clones {
        threads[0].push(Op::Clone { src: 0, dst: 1 + c as u8 });
    }
    let prelude = threads[0].len();
    let mut next_val = 1u32;
    // which instance the threads share (most of the time: all on the same one)
    let shared_slot = rng.usize(n_clones + 1) as u8;
    for t in 0..n_threads {
        let sessions = rng.range(1, 2);
        for _ in 0..sessions {
            let slot = if rng.chance(3, 4) { shared_slot } else { rng.usize(n_clones + 1) as u8 };
            let exclusive = n_threads == 1 && rng.chance(1, 2) || rng.chance(1, 8) || (big && rng.chance(1, 2));
            let mut steps = vec![];
            let n_steps = rng.range(1, if big { 4 } else { 6 });
            for _ in 0..n_steps {
                match rng.weighted(&[60, 10, if exclusive { 20 } else { 0 }, 10, if exclusive { 15 } else { 0 }]) {
                    0 => {
                        let kind = match rng.weighted(&[40, 25, 10, 15, 10, 8, 8]) {
                            0 => LendKind::MakeRefA,
                            1 => LendKind::MakeRefB,
                            2 => LendKind::Lent,
                            3 => LendKind::ViaHelper,
                            4 => LendKind::CloneOfSelf,
                            5 => LendKind::MakeRefZ,
                            _ => LendKind::ViaLentClone,
                        };
                        let n = if big && matches!(kind, LendKind::MakeRefA | LendKind::MakeRefB) {
                            *rng.pick(&[50u32, 200, 1000, 3000, 6000])
                        } else {
                            // two values of the same type in a row is where a neighbour-node bug hides
                            rng.range(1, 3) as u32
                        };
                        steps.push(LendStep::Take { kind, val: next_val, n });
                        next_val += n;
                    }
                    1 => steps.push(LendStep::Check),
                    2 => {
                        steps.push(LendStep::MakeMut { val: next_val });
                        next_val += 1;
                    }
                    4 => {
                        steps.push(LendStep::ViaMut { val: next_val });
                        next_val += 1;
                    }
                    _ => steps.push(LendStep::Yield),
                }
            }
            threads[t].push(Op::LendSession { slot, exclusive, steps });
            // configuring the original afterwards must not release anything that was lent
            if t == 0 && rng.chance(1, 8) {
                threads[0].push(Op::NoVerifyInDrop { slot: 0 });
            }
        }
    }
    if n_threads > 1 {
        threads[0].push(Op::Wait { mask: 0xfe });
    }
    let mut order: Vec<u8> = (1..=n_clones as u8).collect();
    rng.shuffle(&mut order);
    // sometimes the original goes first: the clones keep the shared (lent) value alive
    let original_first = rng.chance(1, 5);
    if original_first {
        threads[0].push(Op::Drop { slot: 0 });
    }
    let by_value = |slot: u8| Op::Call { slot, m: M::V2Prov, x: 0, y: 0, catch: true, fault: None, keep: false };
    for s in order {
        // now and then the owner of a clone is a frame that a (caught) user panic unwinds
        threads[0].push(if by_value_end && rng.chance(1, 2) {
            by_value(s)
        } else if rng.chance(1, 4) {
            Op::UnwindDrop { slot: s }
        } else {
            Op::Drop { slot: s }
        });
    }
    if !original_first && by_value_end && rng.chance(1, 2) {
        threads[0].push(by_value(0));
    } else if !original_first {
        // the original ends by drop, verify() or report(): each releases what it lent, once
        threads[0].push(match rng.weighted(&[45, 27, 18, 10]) {
            0 => Op::Drop { slot: 0 },
            1 => Op::Verify { slot: 0 },
            2 => Op::Report { slot: 0 },
            _ => Op::UnwindDrop { slot: 0 },
        });
    }
    // one lent value whose destructor panics (once, and not while its thread is already unwinding):
    // everything else the instance lent is still released, exactly once. Not combined with make_mut,
    // which releases earlier values in the middle of a lending call.
    let mut bomb: Option<i64> = None;
    let has_mut = threads.iter().flatten().any(|op| matches!(op, Op::LendSession { steps, .. } if steps.iter().any(|s| matches!(s, LendStep::MakeMut { .. } | LendStep::ViaMut { .. }))));
    if !big && !has_mut && rng.chance(1, 5) {
        let mut ids = vec![];
        for op in threads.iter().flatten() {
            if let Op::LendSession { steps, .. } = op {
                for s in steps {
                    if let LendStep::Take { kind: LendKind::MakeRefA | LendKind::MakeRefB | LendKind::ViaHelper, val, n } = s {
                        ids.extend(*val..*val + *n);
                    }
                }
            }
        }
        if !ids.is_empty() {
            bomb = Some(*rng.pick(&ids) as i64);
        }
    }
    Scenario {
        prop: "C13".into(),
        base_seed,
        run,
        batch: batch.into(),
        config: cfg,
        config2: None,
        threads,
        sched: gen_sched(rng, !big),
        knobs: if let Some(b) = bomb {
            vec![("prelude".into(), prelude as i64), ("bomb_val".into(), b)]
        } else if big {
            // long chains: small thread stacks; the run is executed in a child process because the
            // failure mode is a stack overflow
            vec![("prelude".into(), prelude as i64), ("stack_kb".into(), 256), ("isolated".into(), 1)]
        } else {
            vec![("prelude".into(), prelude as i64)]
        },
    }
}

pub fn check_c13(scn: &Scenario) -> Checked {
    let res = world::run(scn);
    let mut stats: RunStats = base_stats(scn, &res);
    if res.timed_out || res.sched.deadlock {
        return Checked { violations: vec![], stats, harness_error: Some("run timed out or deadlocked".into()) };
    }
    if let Some(e) = &res.build_error {
        return Checked { violations: vec![], stats, harness_error: Some(format!("mock construction failed: {e}")) };
    }
    let mut violations: Vec<Violation> = vec![];
    let log = &res.log;
    // 1. every held reference kept showing its own value
    for e in &log.lend {
        if let LendWhat::Bad { val, what } = &e.what {
            violations.push(v(
                "C13",
                "reference-keeps-its-value",
                "held-reference",
                format!("thread {} slot {} value {}: {}", e.thread, e.slot, val, what),
            ));
            break;
        }
    }
    // a lending call itself must not fail
    for o in &log.ops {
        if let (Some(Op::LendSession { .. }), OpResult::Panicked(msg)) = (scn.threads.get(o.thread as usize).and_then(|t| t.get(o.index as usize)), &o.result) {
            violations.push(v("C13", "lending-call-panicked", "session", format!("thread {} op {}: {}", o.thread, o.index, msg)));
            break;
        }
    }
    // 2./3. drops: exactly once, and only inside an allowed window
    let mut created: BTreeMap<u32, u32> = Default::default();
    let mut dropped: BTreeMap<u32, Vec<&TrackEv>> = Default::default();
    for e in &log.track {
        match e.kind {
            TrackKind::Created | TrackKind::ClonedFrom(_) => *created.entry(e.id).or_default() += 1,
            TrackKind::Dropped => dropped.entry(e.id).or_default().push(e),
        }
    }
    let mut owner: BTreeMap<u32, (u8, LendKind, u64)> = Default::default();
    for e in &log.lend {
        if let LendWhat::Taken { val, kind, .. } = &e.what {
            owner.entry(*val).or_insert((e.slot, *kind, e.step));
        }
    }
    // teardown windows per slot, make_mut windows per slot
    let mut teardown: Vec<(u8, u64, u64)> = vec![];
    for o in &log.ops {
        if let Some(op) = scn.threads.get(o.thread as usize).and_then(|t| t.get(o.index as usize)) {
            match op {
                Op::Drop { slot } | Op::Verify { slot } | Op::Report { slot } | Op::UnwindDrop { slot } if !matches!(o.result, OpResult::Skipped(_)) => {
                    teardown.push((*slot, o.start_step, o.end_step))
                }
                Op::Call { slot, m, .. } if m.info().recv == Recv::Val && !matches!(o.result, OpResult::Skipped(_)) => {
                    // the instance ends inside this call: not before the answer function of the by-value
                    // required method has started (if it never got that far, anywhere inside the call)
                    let answer_started = log
                        .progs
                        .iter()
                        .filter(|p| matches!(p.kind, ProgKind::Answer { .. }))
                        .filter(|p| p.call.and_then(|c| log.calls.get(c as usize)).map(|c| c.op == (o.thread, o.index)).unwrap_or(false))
                        .map(|p| p.step)
                        .min();
                    *stats.probes.entry("instance_ended_inside_a_by_value_default_body".into()).or_default() += 1;
                    teardown.push((*slot, answer_started.unwrap_or(o.start_step), o.end_step))
                }
                _ => {}
            }
        }
    }
    let mut mm: Vec<(u8, u64, u64)> = vec![];
    let mut open: BTreeMap<(u8, u8), u64> = Default::default();
    for e in &log.lend {
        match &e.what {
            LendWhat::MakeMutStart { .. } => {
                open.insert((e.thread, e.slot), e.step);
            }
            LendWhat::MakeMutEnd { .. } => {
                if let Some(s) = open.remove(&(e.thread, e.slot)) {
                    mm.push((e.slot, s, e.step));
                }
            }
            _ => {}
        }
    }
    for (id, n) in &created {
        let drops = dropped.get(id).map(|d| d.len()).unwrap_or(0);
        if *n != 1 || drops != 1 {
            violations.push(v(
                "C13",
                "dropped-exactly-once",
                "drop-count",
                format!("value {id} was constructed {n} time(s) and dropped {drops} time(s)"),
            ));
            break;
        }
        let d = dropped[id][0];
        if d.step == u64::MAX {
            continue; // released by the harness after the simulation ended
        }
        let Some((slot, kind, taken_at)) = owner.get(id).copied() else { continue };
        let allowed = match kind {
            // stored in the shared pattern: released when the last instance goes
            LendKind::Lent => teardown.iter().any(|(_, s, e)| *s <= d.step && d.step <= *e),
            // lives in the helper's chain; the helper is released with its instance
            LendKind::ViaHelper => teardown.iter().any(|(sl, s, e)| *sl == slot && *s <= d.step && d.step <= *e),
            _ => {
                teardown.iter().any(|(sl, s, e)| *sl == slot && *s <= d.step && d.step <= *e)
                    || mm.iter().any(|(sl, s, e)| *sl == slot && *s <= d.step && d.step <= *e && *s > taken_at)
            }
        };
        if !allowed {
            violations.push(v(
                "C13",
                "no-early-release",
                format!("{kind:?}"),
                format!(
                    "value {id} ({kind:?}, lent by the instance in slot {slot}) was dropped at step {} on thread {}, outside any teardown of that instance or make_mut on it",
                    d.step, d.thread
                ),
            ));
            break;
        }
    }
    // zero-sized lent values: every one constructed during the run was dropped by its end
    if log.zst.0 != log.zst.1 {
        violations.push(v(
            "C13",
            "dropped-exactly-once",
            "zero-sized",
            format!("{} zero-sized values (with a destructor) were lent via make_ref, {} were dropped by the end of the run", log.zst.0, log.zst.1),
        ));
    }
    // 4. values alive at the same time have distinct addresses
    if owner.len() <= 300 {
        let mut lives: Vec<(u32, u64, u64, u64)> = vec![];
        for e in &log.lend {
            if let LendWhat::Taken { val, addr, kind, .. } = &e.what {
                // the shared lent value is legitimately seen many times; lent clones of the mock are
                // not instrumented (no drop event to bound their lifetime)
                if matches!(kind, LendKind::Lent | LendKind::CloneOfSelf | LendKind::MakeRefZ) {
                    continue;
                }
                let end = dropped.get(val).and_then(|d| d.first()).map(|d| d.step).unwrap_or(u64::MAX);
                if !lives.iter().any(|l| l.0 == *val) {
                    lives.push((*val, *addr, e.step, end));
                }
            }
        }
        'outer: for i in 0..lives.len() {
            for j in 0..i {
                let (a, b) = (lives[i], lives[j]);
                if a.1 == b.1 && a.2 < b.3 && b.2 < a.3 {
                    violations.push(v(
                        "C13",
                        "distinct-values-distinct-addresses",
                        "address",
                        format!("values {} and {} were alive at the same time at the same address {:#x}", a.0, b.0, a.1),
                    ));
                    break 'outer;
                }
            }
        }
    }
    // probes
    let n_values = owner.len();
    let p = |st: &mut RunStats, k: &str, hit: bool| {
        if hit {
            *st.probes.entry(k.to_string()).or_default() += 1;
        }
    };
    p(&mut stats, "make_mut_released_earlier_values", log.track.iter().any(|d| d.kind == TrackKind::Dropped && mm.iter().any(|(_, s, e)| *s <= d.step && d.step <= *e)));
    p(&mut stats, "two_threads_lending_from_one_instance", {
        let mut per_slot: BTreeMap<u8, std::collections::BTreeSet<u8>> = Default::default();
        for e in &log.lend {
            if matches!(e.what, LendWhat::Taken { .. }) {
                per_slot.entry(e.slot).or_default().insert(e.thread);
            }
        }
        per_slot.values().any(|s| s.len() >= 2)
    });
    p(&mut stats, "preempted_inside_value_chain_push", res.sched.switched[5] + res.sched.switched[11] > 0);
    p(&mut stats, "destructor_of_a_lent_value_panicked", scn.knob("bomb_val").is_some() && log.ops.iter().any(|o| matches!(&o.result, OpResult::Panicked(m) | OpResult::Info(m) if m.contains("the destructor of lent value"))));
    p(&mut stats, "lent_through_delegation_helper", owner.values().any(|o| o.1 == LendKind::ViaHelper));
    p(&mut stats, "clone_of_the_mock_lent", owner.values().any(|o| o.1 == LendKind::CloneOfSelf));
    p(&mut stats, "thousand_or_more_values", n_values >= 1000);
    stats.nontrivial = n_values >= 2;
    stats.calls = n_values as u64;
    Checked { violations, stats, harness_error: None }
}

// ---------------------------------------------------------------------------------------------
// C09: only the original verifies: once, on its thread, with no clones alive

pub fn gen_c09(base_seed: u64, batch: &str, run: u64, rng: &mut Rng) -> Scenario {
    let mut co = CfgOpts::default();
    co.max_methods = 2;
    co.max_patterns = 2;
    co.with_mut = false;
    co.nested_calls = false;
    co.ordered_pct = 20;
    co.resp_weights = [60, 5, 0, 25, 4, 3, 3];
    let mut cfg = gen_config(rng, &co);
    for (_, p) in cfg.default_progs.iter_mut() {
        p.calls.clear();
    }
    for (_, p) in cfg.real_progs.iter_mut() {
        p.calls.clear();
    }
    cfg.specials = vec![Special::LendClone];
    // clones that an answer function takes from the instance it is handed (the delegation helper, when
    // the call came through a default body): they count like any other clone
    let stash = rng.chance(1, 3);
    if stash {
        cfg.specials.push(Special::StashClone);
    }
    // sometimes the exit code of report() is itself mocked (mock-std): the instance is then verified
    // when it is dropped at the end of report()
    if cfg!(feature = "stdworld") && rng.chance(1, 6) {
        cfg.specials.push(if rng.chance(1, 4) { Special::MockedReportPanics } else { Special::MockedReport { success: rng.chance(1, 2) } });
    }
    let st = Steer::new(&cfg);
    let n_threads = rng.range(1, 3);
    // scale runs: dozens of clones alive at once, clones of clones many generations deep
    let many = rng.chance(1, 25);
    let n_events = if many { rng.range(30, 150) } else { rng.range(2, 12) };
    let mut threads: Vec<Vec<Op>> = vec![vec![]; n_threads];
    // rough model of which slots hold an instance (ops on empty slots are allowed but rare)
    let mut live: Vec<u8> = vec![0];
    let mut next_slot = 1u8;
    let mut original_gone = false;
    // mocks on plain OS threads that come and go (thread identity after a thread's exit, thread-local
    // destructors)
    if rng.chance(1, 40) {
        threads[0].push(Op::FreshThreads { kind: rng.below(3) as u8 });
    }
    // scale: more clones over the life of one mock than a 16-bit counter holds
    if rng.chance(1, 120) {
        threads[0].push(Op::CloneStorm { slot: 0, n: *rng.pick(&[300u32, 65_540, 66_000]) });
    }
    for _ in 0..n_events {
        let t = rng.usize(n_threads);
        let pick_slot = |rng: &mut Rng, live: &Vec<u8>| if live.is_empty() || rng.chance(1, 15) { rng.below(5) as u8 } else { *rng.pick(live) };
        match rng.weighted(if many { &[46, 14, 26, 2, 2, 2, 8] } else { &[22, 18, 30, 6, 4, 4, 10] }) {
            0 => {
                if (next_slot as usize) < crate::world::N_SLOTS - 1 {
                    let src = pick_slot(rng, &live);
                    if stash && rng.chance(1, 2) {
                        threads[t].push(Op::CloneInside { src, dst: next_slot, via_default: rng.chance(2, 3) });
                    } else {
                        threads[t].push(Op::Clone { src, dst: next_slot });
                    }
                    live.push(next_slot);
                    next_slot += 1;
                }
            }
            1 => {
                // drop a clone (sometimes the original)
                let clones: Vec<u8> = live.iter().copied().filter(|s| *s != 0).collect();
                let slot = if !clones.is_empty() && rng.chance(5, 6) { *rng.pick(&clones) } else { pick_slot(rng, &live) };
                // now and then the owner is a frame that a (caught) user panic unwinds: nothing is verified
                // there, and what is released later elsewhere still goes quietly
                threads[t].push(if rng.chance(1, 8) { Op::UnwindDrop { slot } } else { Op::Drop { slot } });
                live.retain(|s| *s != slot);
                original_gone |= slot == 0;
            }
            2 => {
                let slot = pick_slot(rng, &live);
                let (m, x, y) = match rng.weighted(&[50, 15, 15, 20]) {
                    0 if !st.flat.patterns.is_empty() => {
                        let p = rng.pick(&st.flat.patterns).clone();
                        let (x, y) = st.args_for(rng, p.uid).unwrap_or((rng.below(4) as u8, 0));
                        (p.m, x, y)
                    }
                    1 => (M::B0, rng.below(4) as u8, 0), // provided method: creates the internal helper clone
                    2 => (M::LendClone, 0, 0),           // make_ref(self.clone())
                    _ => (*rng.pick(PLAIN_REF), rng.below(4) as u8, rng.below(4) as u8),
                };
                threads[t].push(Op::Call { slot, m, x, y, catch: true, fault: None, keep: false });
            }
            3 => {
                let slot = pick_slot(rng, &live);
                threads[t].push(Op::Verify { slot });
                live.retain(|s| *s != slot);
                original_gone |= slot == 0;
            }
            4 => {
                let slot = if rng.chance(3, 4) { 0 } else { pick_slot(rng, &live) };
                threads[t].push(Op::Report { slot });
                live.retain(|s| *s != slot);
                original_gone |= slot == 0;
            }
            5 => {
                let slot = if rng.chance(2, 3) { 0 } else { pick_slot(rng, &live) };
                threads[t].push(Op::NoVerifyInDrop { slot });
            }
            _ => {
                if n_threads > 1 && t == 0 {
                    threads[0].push(Op::Wait { mask: 0xfe });
                }
            }
        }
    }
    // most runs end with the original being finished one way or another
    if !original_gone && rng.chance(5, 6) {
        let t = if rng.chance(4, 5) { 0 } else { rng.usize(n_threads) };
        if t == 0 && n_threads > 1 && rng.chance(2, 3) {
            threads[0].push(Op::Wait { mask: 0xfe });
            // tidy up the clones first in most runs
            if rng.chance(3, 4) {
                for s in live.iter().copied().filter(|s| *s != 0) {
                    threads[0].push(Op::Drop { slot: s });
                }
            }
        }
        threads[t].push(match rng.weighted(&[50, 30, 20]) {
            0 => Op::Drop { slot: 0 },
            1 => Op::Verify { slot: 0 },
            _ => Op::Report { slot: 0 },
        });
    }
    Scenario {
        prop: "C09".into(),
        base_seed,
        run,
        batch: batch.into(),
        config: cfg,
        config2: None,
        threads,
        sched: gen_sched(rng, true),
        knobs: vec![],
    }
}

#[derive(Clone, Debug)]
struct Inst {
    created_start: u64,
    created_end: u64,
    /// (start, end) of the operation that consumed it
    gone: Option<(u64, u64)>,
}

pub fn check_c09(scn: &Scenario) -> Checked {
    let res = world::run(scn);
    let mut stats: RunStats = base_stats(scn, &res);
    if res.timed_out || res.sched.deadlock {
        return Checked { violations: vec![], stats, harness_error: Some("run timed out or deadlocked".into()) };
    }
    if let Some(e) = &res.build_error {
        return Checked { violations: vec![], stats, harness_error: Some(format!("mock construction failed: {e}")) };
    }
    let mut violations: Vec<Violation> = vec![];
    let flat = scn.config.flatten();
    let log = &res.log;
    // resolve which instance every operation touched by replaying slot events in time order
    #[derive(Clone)]
    enum SlotEv {
        Put { slot: u8, inst: usize },
        Take { slot: u8, op: usize },
    }
    let mut insts: Vec<Inst> = vec![Inst { created_start: 0, created_end: 0, gone: None }];
    let mut events: Vec<(u64, u8, SlotEv)> = vec![];
    let op_of = |o: &OpRec| scn.threads.get(o.thread as usize).and_then(|t| t.get(o.index as usize)).cloned();
    for (i, o) in log.ops.iter().enumerate() {
        if matches!(o.result, OpResult::Skipped(_)) {
            continue;
        }
        match op_of(o) {
            Some(Op::Clone { dst, .. }) | Some(Op::CloneInside { dst, .. }) if matches!(o.result, OpResult::Done) => {
                insts.push(Inst { created_start: o.start_step, created_end: o.end_step, gone: None });
                events.push((o.end_step, 0, SlotEv::Put { slot: dst, inst: insts.len() - 1 }));
            }
            Some(Op::Drop { slot }) | Some(Op::Verify { slot }) | Some(Op::Report { slot }) | Some(Op::UnwindDrop { slot }) => {
                events.push((o.start_step, 1, SlotEv::Take { slot, op: i }));
            }
            Some(Op::NoVerifyInDrop { slot }) if !matches!(o.result, OpResult::Done) => {
                events.push((o.start_step, 1, SlotEv::Take { slot, op: i }));
            }
            _ => {}
        }
    }
    events.sort_by_key(|e| (e.0, e.1));
    let mut slot_map: BTreeMap<u8, usize> = BTreeMap::new();
    slot_map.insert(0, 0);
    let mut consumed_by: BTreeMap<usize, usize> = BTreeMap::new(); // op index -> instance
    for (_, _, e) in &events {
        match e {
            SlotEv::Put { slot, inst } => {
                slot_map.insert(*slot, *inst);
            }
            SlotEv::Take { slot, op } => {
                if let Some(inst) = slot_map.remove(slot) {
                    consumed_by.insert(*op, inst);
                    let o = &log.ops[*op];
                    insts[inst].gone = Some((o.start_step, o.end_step));
                }
            }
        }
    }
    let mut verify_in_drop = true;
    let mut verified = false;
    let mut ops_sorted: Vec<(usize, &OpRec)> = log.ops.iter().enumerate().collect();
    ops_sorted.sort_by_key(|(_, o)| o.start_step);
    for (i, o) in ops_sorted {
        if matches!(o.result, OpResult::Skipped(_)) {
            continue;
        }
        let Some(op) = op_of(o) else { continue };
        // which instance this is follows from the history alone: slot 0 holds what Unimock::new
        // returned, every other slot was filled by a clone operation (the instance's own idea of
        // itself, read through the hook, is only counted when it differs)
        let slot_of = match &op {
            Op::Drop { slot } | Op::Verify { slot } | Op::Report { slot } | Op::NoVerifyInDrop { slot } | Op::UnwindDrop { slot } => Some(*slot),
            _ => None,
        };
        let is_original = match slot_of {
            Some(slot) => {
                let by_history = slot == 0;
                if matches!(o.original, Some(claimed) if claimed != by_history) {
                    // not a verdict by itself: the clauses below judge what the instance *does*
                    *stats.probes.entry("instance_disagrees_with_history_about_being_the_original".into()).or_default() += 1;
                }
                Some(by_history)
            }
            None => o.original,
        };
        let report_panics = scn.config.specials.iter().any(|sp| matches!(sp, Special::MockedReportPanics));
        match (&op, is_original) {
            (Op::Report { .. }, Some(orig)) if report_panics => {
                // report() is mocked with a panics(..) response: evaluating it is a call like any other -
                // the mock-induced panic propagates (the instance goes while unwinding: nothing is verified)
                *stats.probes.entry("mocked_report_panics".into()).or_default() += 1;
                if !matches!(o.result, OpResult::Panicked(_)) {
                    violations.push(v("C09", "mocked-report-is-a-call-like-any-other", if orig { "original" } else { "clone" }, format!("Termination::report is mocked with panics(..); report() gave {:?}", o.result)));
                }
                if orig {
                    verified = true;
                }
            }
            (Op::CloneInside { via_default, .. }, _) => {
                *stats.probes.entry(format!("clone_taken_inside_an_answer_function{}", if *via_default { "_through_a_default_body" } else { "" })).or_default() += 1;
                if !matches!(o.result, OpResult::Done) {
                    violations.push(v("C09", "clone-never-panics", "clone-inside", format!("a call whose answer function clones the mock: {:?}", o.result)));
                }
            }
            (Op::Clone { .. }, _) => {
                if !matches!(o.result, OpResult::Done) {
                    violations.push(v("C09", "clone-never-panics", "clone", format!("cloning panicked: {:?}", o.result)));
                }
            }
            (Op::FreshThreads { kind }, _) => {
                *stats.probes.entry(format!("fresh_threads_kind_{kind}")).or_default() += 1;
                match (kind, &o.result) {
                    (_, OpResult::Done) => {}
                    (0 | 1, r) => violations.push(v(
                        "C09",
                        "foreign-thread-panic-required",
                        "creator-thread-exited",
                        format!("an original built on a thread that has exited was {} on a thread spawned afterwards: {r:?}", if *kind == 1 { "verified" } else { "dropped" }),
                    )),
                    (_, r) => violations.push(v(
                        "C09",
                        "verdict",
                        "thread-local-destructor",
                        format!("an original with every expectation met, dropped by a thread-local destructor of the thread that created it: {r:?}"),
                    )),
                }
            }
            (Op::CloneStorm { n, .. }, _) => {
                *stats.probes.entry("clone_storm".into()).or_default() += 1;
                if !matches!(o.result, OpResult::Done) {
                    violations.push(v("C09", "dropping-a-clone-is-silent", "clone-storm", format!("making and dropping {n} clones in a row: {:?}", o.result)));
                }
            }
            (Op::UnwindDrop { .. }, Some(true)) => {
                // released while its owner unwinds: no verification takes place (C11 decides that part)
                *stats.probes.entry("original_released_by_an_unwinding_frame".into()).or_default() += 1;
                verified = true;
            }
            (Op::Drop { .. } | Op::UnwindDrop { .. }, Some(false)) => {
                if !matches!(o.result, OpResult::Quiet) {
                    violations.push(v("C09", "dropping-a-clone-is-silent", "drop-clone", format!("dropping a clone: {:?}", o.result)));
                }
            }
            (Op::Verify { .. }, Some(false)) | (Op::NoVerifyInDrop { .. }, Some(false)) => {
                let ok = matches!(&o.result, OpResult::Panicked(_));
                if !ok {
                    violations.push(v(
                        "C09",
                        "verify-on-clone-panics",
                        if matches!(op, Op::Verify { .. }) { "verify" } else { "no_verify_in_drop" },
                        format!("{op:?} on a clone must panic, got {:?}", o.result),
                    ));
                }
            }
            (Op::Report { .. }, Some(false)) => {
                // only the original verifies: handing a clone to report() consumes the clone, nothing
                // is judged (no live-clone / wrong-thread panic, no FAILURE for unmet expectations)
                *stats.probes.entry("report_on_a_clone".into()).or_default() += 1;
                let mocked_code = scn.config.specials.iter().find_map(|sp| match sp {
                    Special::MockedReport { success } => Some(*success),
                    _ => None,
                });
                if o.result != OpResult::ExitCode(mocked_code.unwrap_or(true)) {
                    violations.push(v(
                        "C09",
                        "only-the-original-verifies",
                        "report-on-clone",
                        format!("report() on a clone must not verify anything (the original does, once); it gave {:?}", o.result),
                    ));
                }
            }
            (Op::NoVerifyInDrop { .. }, Some(true)) => {
                if matches!(o.result, OpResult::Done) {
                    verify_in_drop = false;
                } else {
                    violations.push(v("C09", "no-verify-in-drop-on-original", "no_verify_in_drop", format!("no_verify_in_drop() on the original: {:?}", o.result)));
                }
            }
            (Op::Drop { .. } | Op::Verify { .. } | Op::Report { .. }, Some(true)) => {
                let Some(pre) = &o.pre else { continue };
                // report() with a mocked exit code hands out that code and then *drops* the instance
                let mocked_report = match (&op, scn.config.specials.iter().find_map(|sp| match sp {
                    Special::MockedReport { success } => Some(*success),
                    _ => None,
                })) {
                    (Op::Report { .. }, Some(code)) => Some(code),
                    _ => None,
                };
                if (matches!(op, Op::Drop { .. }) || mocked_report.is_some()) && !verify_in_drop {
                    let quiet = match mocked_report {
                        Some(code) => o.result == OpResult::ExitCode(code),
                        None => matches!(o.result, OpResult::Quiet),
                    };
                    if !quiet {
                        violations.push(v("C09", "no-verify-in-drop-disables", "drop", format!("{} after no_verify_in_drop(): {:?}", if mocked_report.is_some() { "report() with a mocked exit code" } else { "drop" }, o.result)));
                    }
                    *stats.probes.entry("drop_after_no_verify_in_drop".into()).or_default() += 1;
                    continue;
                }
                if verified {
                    violations.push(v("C09", "verifies-once", "twice", format!("a second verification ran: {op:?} -> {:?}", o.result)));
                    continue;
                }
                verified = true;
                // clone population relative to this operation's window
                let (vs, ve) = (o.start_step, o.end_step);
                let mut any_def_alive = false;
                let mut all_def_dead = true;
                for (k, c) in insts.iter().enumerate().skip(1) {
                    let _ = k;
                    let def_dead = c.created_start > ve || matches!(c.gone, Some((_, ge)) if ge < vs);
                    let def_alive = c.created_end < vs && !matches!(c.gone, Some((gs, _)) if gs <= ve);
                    any_def_alive |= def_alive;
                    all_def_dead &= def_dead;
                }
                // (only whether it panicked is looked at, not what the panic says)
                let panicked = matches!(&o.result, OpResult::Panicked(_));
                let key = match op {
                    Op::Drop { .. } => "drop",
                    Op::Verify { .. } => "verify",
                    _ => "report",
                };
                if any_def_alive {
                    *stats.probes.entry("verified_with_clone_alive".into()).or_default() += 1;
                    if !panicked {
                        violations.push(v("C09", "live-clone-panic-required", key, format!("{op:?} of the original on thread {} while a clone is definitely alive must panic: {:?}", o.thread, o.result)));
                    }
                    continue;
                }
                if !all_def_dead {
                    *stats.probes.entry("clone_drop_raced_with_verification".into()).or_default() += 1;
                    // either outcome is allowed while a clone's drop overlaps the verification, and the
                    // clone may still have been used after the pre-state was read: nothing to compare
                    continue;
                }
                if o.thread != 0 {
                    *stats.probes.entry("verified_on_foreign_thread".into()).or_default() += 1;
                    if !panicked {
                        violations.push(v("C09", "foreign-thread-panic-required", key, format!("{op:?} of the original on thread {} (creator is thread 0) must panic: {:?}", o.thread, o.result)));
                    }
                    continue;
                }
                // ordinary verdict: recorded errors, else the counts
                let (p, mut m) = crate::oracle::unmet(&flat, pre);
                let mocked_code = scn.config.specials.iter().find_map(|sp| match sp {
                    Special::MockedReport { success } => Some(*success),
                    _ => None,
                });
                if let (Op::Report { .. }, Some(code)) = (&op, mocked_code) {
                    // the report() call itself matches the mocked method; the mocked code is handed out
                    // and the instance is verified by its drop at the end of report(): unmet
                    // expectations or recorded errors surface as that drop's panic
                    m.retain(|x| *x != M::TermReport);
                    let expect_fail = !pre.errors.is_empty() || !p.is_empty() || !m.is_empty();
                    *stats.probes.entry("verdict_checked_mocked_report".into()).or_default() += 1;
                    let ok = if expect_fail { matches!(o.result, OpResult::Panicked(_)) } else { o.result == OpResult::ExitCode(code) };
                    if !ok {
                        violations.push(v(
                            "C09",
                            "verdict",
                            "mocked-report",
                            format!("report() with a mocked exit code ({}): recorded errors {:?}, counts {:?} => {}, but {:?}", if code { "SUCCESS" } else { "FAILURE" }, pre.errors, pre.counts, if expect_fail { "the verification at the end of report() must fail" } else { "the mocked code must come back" }, o.result),
                        ));
                    }
                    continue;
                }
                let expect_fail = !pre.errors.is_empty() || !p.is_empty() || !m.is_empty();
                let failed = matches!(o.result, OpResult::Panicked(_) | OpResult::ExitCode(false));
                *stats.probes.entry(format!("verdict_checked_{key}")).or_default() += 1;
                if !pre.errors.is_empty() {
                    *stats.probes.entry("verdict_with_recorded_errors".into()).or_default() += 1;
                }
                if matches!(op, Op::Report { .. }) && matches!(o.result, OpResult::Panicked(_)) {
                    violations.push(v("C09", "report-returns-exit-code", key, format!("report() must map the verdict to an exit code, it panicked: {:?}", o.result)));
                } else if expect_fail != failed {
                    violations.push(v(
                        "C09",
                        "verdict",
                        key,
                        format!("{op:?}: recorded errors {:?}, counts {:?} => should {}, but {:?}", pre.errors, pre.counts, if expect_fail { "fail" } else { "pass" }, o.result),
                    ));
                }
            }
            _ => {}
        }
        let _ = i;
    }
    if log.calls.iter().any(|c| c.m == M::B0 && c.prog.is_some()) {
        *stats.probes.entry("helper_clone_created_by_default_method".into()).or_default() += 1;
    }
    if log.calls.iter().any(|c| c.m == M::LendClone && matches!(c.outcome, Some(Outcome::Value(_)))) {
        *stats.probes.entry("clone_of_self_lent_via_make_ref".into()).or_default() += 1;
    }
    if insts.len() > 2 {
        *stats.probes.entry("two_or_more_clones".into()).or_default() += 1;
    }
    stats.nontrivial = log.ops.iter().filter(|o| !matches!(o.result, OpResult::Skipped(_))).count() >= 2;
    Checked { violations, stats, harness_error: None }
}
