//! Lending world check (C13) and lifecycle world (C09).

use std::collections::BTreeMap;

use crate::ctx::*;
use crate::gen::*;
use crate::oracle::{v, Violation};
use crate::props::{base_stats, Checked, RunStats};
use crate::rng::Rng;
use crate::spec::*;
use crate::values::*;
use crate::world::{self};

pub const LENT_ID: u32 = 900_000;

pub fn lending_config(with_plain: bool, rng: &mut Rng) -> Config {
    let mut cfg = if with_plain {
        let mut co = CfgOpts::default();
        co.max_methods = 1;
        co.max_patterns = 2;
        co.with_mut = false;
        co.nested_calls = false;
        gen_config(rng, &co)
    } else {
        Config::default()
    };
    cfg.specials = vec![Special::LendA, Special::LendB, Special::LendMut, Special::Lent { id: LENT_ID }, Special::LendClone];
    cfg
}

pub fn gen_c13(base_seed: u64, batch: &str, run: u64, rng: &mut Rng) -> Scenario {
    let big = batch == "long-chains";
    let cfg = lending_config(false, rng);
    let n_threads = if rng.chance(1, 4) { 1 } else { rng.range(2, if big { 3 } else { 8 }) };
    let n_clones = rng.usize(3);
    let mut threads: Vec<Vec<Op>> = vec![vec![]; n_threads];
    for c in 0..n_clones {
        threads[0].push(Op::Clone { src: 0, dst: 1 + c as u8 });
    }
    let prelude = threads[0].len();
    let mut next_val = 1u32;
    // which instance the threads share (most of the time: all on the same one)
    let shared_slot = rng.usize(n_clones + 1) as u8;
    for t in 0..n_threads {
        let sessions = rng.range(1, 2);
        for _ in 0..sessions {
            let slot = if rng.chance(3, 4) { shared_slot } else { rng.usize(n_clones + 1) as u8 };
            let exclusive = n_threads == 1 && rng.chance(1, 2) || rng.chance(1, 8) || (big && rng.chance(1, 2));
            let mut steps = vec![];
            let n_steps = rng.range(1, if big { 4 } else { 6 });
            for _ in 0..n_steps {
                match rng.weighted(&[60, 10, if exclusive { 20 } else { 0 }, 10]) {
                    0 => {
                        let kind = match rng.weighted(&[40, 25, 10, 15, 10]) {
                            0 => LendKind::MakeRefA,
                            1 => LendKind::MakeRefB,
                            2 => LendKind::Lent,
                            3 => LendKind::ViaHelper,
                            _ => LendKind::CloneOfSelf,
                        };
                        let n = if big && matches!(kind, LendKind::MakeRefA | LendKind::MakeRefB) {
                            *rng.pick(&[50u32, 200, 1000, 3000, 6000])
                        } else {
                            // two values of the same type in a row is where a neighbour-node bug hides
                            rng.range(1, 3) as u32
                        };
                        steps.push(LendStep::Take { kind, val: next_val, n });
                        next_val += n;
                    }
                    1 => steps.push(LendStep::Check),
                    2 => {
                        steps.push(LendStep::MakeMut { val: next_val });
                        next_val += 1;
                    }
                    _ => steps.push(LendStep::Yield),
                }
            }
            threads[t].push(Op::LendSession { slot, exclusive, steps });
        }
    }
    if n_threads > 1 {
        threads[0].push(Op::Wait { mask: 0xfe });
    }
    let mut order: Vec<u8> = (1..=n_clones as u8).collect();
    rng.shuffle(&mut order);
    // sometimes the original goes first: the clones keep the shared (lent) value alive
    let original_first = rng.chance(1, 5);
    if original_first {
        threads[0].push(Op::Drop { slot: 0 });
    }
    for s in order {
        threads[0].push(Op::Drop { slot: s });
    }
    if !original_first {
        threads[0].push(Op::Drop { slot: 0 });
    }
    Scenario {
        prop: "C13".into(),
        base_seed,
        run,
        batch: batch.into(),
        config: cfg,
        config2: None,
        threads,
        sched: gen_sched(rng, !big),
        knobs: if big {
            // long chains: small thread stacks; the run is executed in a child process because the
            // failure mode is a stack overflow
            vec![("prelude".into(), prelude as i64), ("stack_kb".into(), 256), ("isolated".into(), 1)]
        } else {
            vec![("prelude".into(), prelude as i64)]
        },
    }
}

pub fn check_c13(scn: &Scenario) -> Checked {
    let res = world::run(scn);
    let mut stats: RunStats = base_stats(scn, &res);
    if res.timed_out || res.sched.deadlock {
        return Checked { violations: vec![], stats, harness_error: Some("run timed out or deadlocked".into()) };
    }
    if let Some(e) = &res.build_error {
        return Checked { violations: vec![], stats, harness_error: Some(format!("mock construction failed: {e}")) };
    }
    let mut violations: Vec<Violation> = vec![];
    let log = &res.log;
    // 1. every held reference kept showing its own value
    for e in &log.lend {
        if let LendWhat::Bad { val, what } = &e.what {
            violations.push(v(
                "C13",
                "reference-keeps-its-value",
                "held-reference",
                format!("thread {} slot {} value {}: {}", e.thread, e.slot, val, what),
            ));
            break;
        }
    }
    // a lending call itself must not fail
    for o in &log.ops {
        if let (Some(Op::LendSession { .. }), OpResult::Panicked(msg)) = (scn.threads.get(o.thread as usize).and_then(|t| t.get(o.index as usize)), &o.result) {
            violations.push(v("C13", "lending-call-panicked", "session", format!("thread {} op {}: {}", o.thread, o.index, msg)));
            break;
        }
    }
    // 2./3. drops: exactly once, and only inside an allowed window
    let mut created: BTreeMap<u32, u32> = Default::default();
    let mut dropped: BTreeMap<u32, Vec<&TrackEv>> = Default::default();
    for e in &log.track {
        match e.kind {
            TrackKind::Created | TrackKind::ClonedFrom(_) => *created.entry(e.id).or_default() += 1,
            TrackKind::Dropped => dropped.entry(e.id).or_default().push(e),
        }
    }
    let mut owner: BTreeMap<u32, (u8, LendKind, u64)> = Default::default();
    for e in &log.lend {
        if let LendWhat::Taken { val, kind, .. } = &e.what {
            owner.entry(*val).or_insert((e.slot, *kind, e.step));
        }
    }
    // teardown windows per slot, make_mut windows per slot
    let mut teardown: Vec<(u8, u64, u64)> = vec![];
    for o in &log.ops {
        if let Some(op) = scn.threads.get(o.thread as usize).and_then(|t| t.get(o.index as usize)) {
            match op {
                Op::Drop { slot } | Op::Verify { slot } | Op::Report { slot } if !matches!(o.result, OpResult::Skipped(_)) => {
                    teardown.push((*slot, o.start_step, o.end_step))
                }
                _ => {}
            }
        }
    }
    let mut mm: Vec<(u8, u64, u64)> = vec![];
    let mut open: BTreeMap<(u8, u8), u64> = Default::default();
    for e in &log.lend {
        match &e.what {
            LendWhat::MakeMutStart { .. } => {
                open.insert((e.thread, e.slot), e.step);
            }
            LendWhat::MakeMutEnd { .. } => {
                if let Some(s) = open.remove(&(e.thread, e.slot)) {
                    mm.push((e.slot, s, e.step));
                }
            }
            _ => {}
        }
    }
    for (id, n) in &created {
        let drops = dropped.get(id).map(|d| d.len()).unwrap_or(0);
        if *n != 1 || drops != 1 {
            violations.push(v(
                "C13",
                "dropped-exactly-once",
                "drop-count",
                format!("value {id} was constructed {n} time(s) and dropped {drops} time(s)"),
            ));
            break;
        }
        let d = dropped[id][0];
        if d.step == u64::MAX {
            continue; // released by the harness after the simulation ended
        }
        let Some((slot, kind, taken_at)) = owner.get(id).copied() else { continue };
        let allowed = match kind {
            // stored in the shared pattern: released when the last instance goes
            LendKind::Lent => teardown.iter().any(|(_, s, e)| *s <= d.step && d.step <= *e),
            // lives in the helper's chain; the helper is released with its instance
            LendKind::ViaHelper => teardown.iter().any(|(sl, s, e)| *sl == slot && *s <= d.step && d.step <= *e),
            _ => {
                teardown.iter().any(|(sl, s, e)| *sl == slot && *s <= d.step && d.step <= *e)
                    || mm.iter().any(|(sl, s, e)| *sl == slot && *s <= d.step && d.step <= *e && *s > taken_at)
            }
        };
        if !allowed {
            violations.push(v(
                "C13",
                "no-early-release",
                format!("{kind:?}"),
                format!(
                    "value {id} ({kind:?}, lent by the instance in slot {slot}) was dropped at step {} on thread {}, outside any teardown of that instance or make_mut on it",
                    d.step, d.thread
                ),
            ));
            break;
        }
    }
    // 4. values alive at the same time have distinct addresses
    if owner.len() <= 300 {
        let mut lives: Vec<(u32, u64, u64, u64)> = vec![];
        for e in &log.lend {
            if let LendWhat::Taken { val, addr, kind, .. } = &e.what {
                // the shared lent value is legitimately seen many times; lent clones of the mock are
                // not instrumented (no drop event to bound their lifetime)
                if matches!(kind, LendKind::Lent | LendKind::CloneOfSelf) {
                    continue;
                }
                let end = dropped.get(val).and_then(|d| d.first()).map(|d| d.step).unwrap_or(u64::MAX);
                if !lives.iter().any(|l| l.0 == *val) {
                    lives.push((*val, *addr, e.step, end));
                }
            }
        }
        'outer: for i in 0..lives.len() {
            for j in 0..i {
                let (a, b) = (lives[i], lives[j]);
                if a.1 == b.1 && a.2 < b.3 && b.2 < a.3 {
                    violations.push(v(
                        "C13",
                        "distinct-values-distinct-addresses",
                        "address",
                        format!("values {} and {} were alive at the same time at the same address {:#x}", a.0, b.0, a.1),
                    ));
                    break 'outer;
                }
            }
        }
    }
    // probes
    let n_values = owner.len();
    let p = |st: &mut RunStats, k: &str, hit: bool| {
        if hit {
            *st.probes.entry(k.to_string()).or_default() += 1;
        }
    };
    p(&mut stats, "make_mut_released_earlier_values", log.track.iter().any(|d| d.kind == TrackKind::Dropped && mm.iter().any(|(_, s, e)| *s <= d.step && d.step <= *e)));
    p(&mut stats, "two_threads_lending_from_one_instance", {
        let mut per_slot: BTreeMap<u8, std::collections::BTreeSet<u8>> = Default::default();
        for e in &log.lend {
            if matches!(e.what, LendWhat::Taken { .. }) {
                per_slot.entry(e.slot).or_default().insert(e.thread);
            }
        }
        per_slot.values().any(|s| s.len() >= 2)
    });
    p(&mut stats, "preempted_inside_value_chain_push", res.sched.switched[5] + res.sched.switched[11] > 0);
    p(&mut stats, "lent_through_delegation_helper", owner.values().any(|o| o.1 == LendKind::ViaHelper));
    p(&mut stats, "clone_of_the_mock_lent", owner.values().any(|o| o.1 == LendKind::CloneOfSelf));
    p(&mut stats, "thousand_or_more_values", n_values >= 1000);
    stats.nontrivial = n_values >= 2;
    stats.calls = n_values as u64;
    Checked { violations, stats, harness_error: None }
}
