//! Reference semantics of a configuration (DESIGN.md Appendix A), written without any unimock code:
//! expectations, the response a k-th match is assigned, ordered slot ranges, routing facts.
//! The oracles use these as *local* transition checks from the actual pre-state.

use crate::spec::*;

#[derive(Clone, Copy, Debug, PartialEq, Eq)]
pub enum Exactness {
    Exact,
    AtLeast,
    AtLeastPlusOne,
}

#[derive(Clone, Copy, Debug, PartialEq, Eq)]
pub struct Expectation {
    pub minimum: u32,
    pub exactness: Exactness,
}

impl Expectation {
    pub fn lower_bound(&self) -> u32 {
        match self.exactness {
            Exactness::Exact | Exactness::AtLeast => self.minimum,
            Exactness::AtLeastPlusOne => self.minimum + 1,
        }
    }
    pub fn violated_by(&self, count: u32) -> bool {
        match self.exactness {
            Exactness::Exact => count != self.minimum,
            _ => count < self.lower_bound(),
        }
    }
    pub fn open_ended(&self) -> bool {
        self.exactness != Exactness::Exact
    }
}

/// Counts from here on stand for 2^32 + (n - HUGE): repeat counts beyond what 32 bits hold. The model
/// keeps them as they are (far beyond any number of calls a run makes, like the real ones).
pub const HUGE: u32 = 0xF000_0000;

/// the count handed to the builder for a count of the clause model
pub fn real_count(n: u32) -> usize {
    if n >= HUGE {
        (1usize << 32) + (n - HUGE) as usize
    } else {
        n as usize
    }
}

/// the count a quantifier contributes to the chain
pub fn quant_count(q: Quant) -> u32 {
    match q {
        Quant::Unq => 0,
        Quant::Once => 1,
        Quant::N(n) => n,
        Quant::AtLeast(n) => n,
    }
}

/// `some_call/next_call(..).returns(v)` left unquantified, or `.once()`: stored without Clone.
pub fn seg_single_use(p: &FlatPattern, seg: usize) -> bool {
    seg == 0
        && matches!(p.form, Form::SomeCall | Form::NextCall)
        && matches!(p.spec.segs[0].resp, Resp::Returns)
        && matches!(p.spec.segs[0].quant, Quant::Unq | Quant::Once)
}

/// Effective count of the last segment, including the implicit quantification rules.
fn effective_quant(p: &FlatPattern, seg: usize) -> (u32, Option<Exactness>) {
    let s = &p.spec.segs[seg];
    let last = seg + 1 == p.spec.segs.len();
    match s.quant {
        Quant::Once => (1, Some(Exactness::Exact)),
        Quant::N(n) => (n, Some(Exactness::Exact)),
        Quant::AtLeast(n) => (n, Some(Exactness::AtLeast)),
        Quant::Unq => {
            debug_assert!(last);
            if p.form == Form::NextCall {
                // an unquantified ordered clause is exactly once
                (1, Some(Exactness::Exact))
            } else if seg_single_use(p, seg) {
                // some_call(..).returns(v) left unquantified is once()
                (1, Some(Exactness::Exact))
            } else {
                (0, None)
            }
        }
    }
}

pub fn expectation(p: &FlatPattern) -> Expectation {
    let mut e = Expectation {
        minimum: 0,
        exactness: Exactness::AtLeast,
    };
    for seg in 0..p.spec.segs.len() {
        if seg > 0 {
            // then()
            e.exactness = Exactness::AtLeastPlusOne;
        }
        let (n, ex) = effective_quant(p, seg);
        if let Some(ex) = ex {
            e.minimum += n;
            e.exactness = ex;
        }
    }
    e
}

/// Start index (0-based match index) of each segment.
pub fn seg_starts(p: &FlatPattern) -> Vec<u32> {
    let mut starts = Vec::new();
    let mut acc = 0;
    for seg in 0..p.spec.segs.len() {
        starts.push(acc);
        acc += effective_quant(p, seg).0;
    }
    starts
}

/// What C02 demands for the k-th match (k >= 1) of a pattern.
#[derive(Clone, Copy, Debug, PartialEq, Eq)]
pub enum Assigned {
    /// this segment
    Seg(usize),
    /// beyond the end of an exactly quantified chain: the statement is silent
    Unconstrained,
    /// pattern without any response
    NoResponse,
}

pub fn assigned_segment(p: &FlatPattern, k: u32) -> Assigned {
    let n = p.spec.segs.len();
    if n == 0 {
        return Assigned::NoResponse;
    }
    let mut acc = 0u32;
    for seg in 0..n {
        acc += effective_quant(p, seg).0;
        if acc >= k {
            return Assigned::Seg(seg);
        }
    }
    if expectation(p).open_ended() {
        Assigned::Seg(n - 1)
    } else {
        Assigned::Unconstrained
    }
}

/// Slot ranges of the ordered patterns, in clause order across all methods: uid -> [start, end)
pub fn slot_ranges(flat: &Flat) -> Vec<(u16, u32, u32)> {
    let mut out = Vec::new();
    let mut cur = 0u32;
    for p in &flat.patterns {
        if p.form == Form::NextCall {
            let len = expectation(p).minimum;
            out.push((p.uid, cur, cur + len));
            cur += len;
        }
    }
    out
}

pub fn slot_owner(flat: &Flat, index: u32) -> Option<&FlatPattern> {
    for (uid, s, e) in slot_ranges(flat) {
        if s <= index && index < e {
            return Some(&flat.patterns[uid as usize]);
        }
    }
    None
}

pub fn accepts(p: &FlatPattern, x: u8, y: u8) -> bool {
    let idx = if p.m == M::Z0 {
        0
    } else if p.m.info().two_args {
        arg_index(x, y)
    } else {
        arg_index(x, 0)
    };
    p.spec.has_matcher && (p.spec.pred >> idx) & 1 == 1
}

/// A configuration the real constructor must reject (mixed ordered/unordered for one method,
/// empty stub): generators avoid these, C14 is not claimed.
pub fn constructible(cfg: &Config) -> bool {
    let mut modes: std::collections::BTreeMap<M, bool> = Default::default();
    for c in &cfg.clauses {
        if c.patterns.is_empty() {
            return false;
        }
        let o = c.form.ordered();
        match modes.get(&c.m) {
            Some(prev) if *prev != o => return false,
            _ => {
                modes.insert(c.m, o);
            }
        }
    }
    true
}

/// Where a call goes when no pattern answers it (C07 routing table).
#[derive(Clone, Copy, Debug, PartialEq, Eq)]
pub enum Route {
    DefaultBody,
    RealFn,
    /// real function wanted but none registered -> mock panic
    MissingRealFn,
    MockPanic,
}

/// Receivers for which the generated method can run the real function at all.
pub fn unmock_reachable(m: M) -> bool {
    m.info().has_unmock
}

pub fn route_unmentioned(cfg: &Config, m: M) -> Route {
    let info = m.info();
    if info.has_default {
        Route::DefaultBody
    } else if cfg.partial {
        if info.has_unmock {
            Route::RealFn
        } else {
            Route::MissingRealFn
        }
    } else {
        Route::MockPanic
    }
}

pub fn route_unmatched(cfg: &Config, m: M) -> Route {
    if cfg.partial {
        if m.info().has_unmock {
            Route::RealFn
        } else {
            Route::MissingRealFn
        }
    } else {
        Route::MockPanic
    }
}
