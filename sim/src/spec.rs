//! Data that fully describes one simulated run. Everything here is serialisable: a replay file
//! is a `Scenario` plus what was expected/observed.

use serde::{Deserialize, Serialize};

/// Methods of the corpus (see corpus.rs).
#[derive(Serialize, Deserialize, Clone, Copy, Debug, PartialEq, Eq, Hash, PartialOrd, Ord)]
pub enum M {
    // plain u8 -> u64 methods
    A0,
    A1,
    B0,
    B1,
    B2,
    B3,
    Gm,
    Gp,
    // by-value / Rc / Arc / Pin receivers (C15)
    VReq,
    VProv,
    RcReq,
    RcProv,
    ArcReq,
    ArcProv,
    PinReq,
    PinProv,
    // async (C16)
    Af,
    Ag,
    /// `fn ai(&self, x) -> impl Future<Output = u64>`: the third spelling of an async method
    Ai,
    At,
    // generic (C18)
    GenU8,
    GenU16,
    GmU8,
    GmU16,
    /// a method with an `impl Trait` argument (the macro invents the type parameter), two instantiations
    GiU8,
    GiU16,
    /// a method of a trait mocked without `api=`: no clause can ever mention it
    N0,
    // explicit-parameter unmock form
    E0,
    // lending (C13)
    LendA,
    LendB,
    LendMut,
    Lent,
    LendClone,
    LendGuard,
    LendVia,
    LendViaMut,
    LendZ,
    // owned tracked values (C12)
    OwnSingle,
    OwnMulti,
    OwnOpt,
    OwnRes,
    OwnTup,
    OwnTup1,
    OwnVec,
    OwnTup3,
    // a trait with a receiver-less provided fn before methods with unmock functions
    S0,
    S1,
    S2,
    /// argument type whose Debug rendering can panic (reached while the mock renders an error)
    D0,
    /// by-value and Rc receivers with an unmock function (C16)
    Vu,
    RcU,
    /// provided method whose body formats `self` through Debug and Display supertraits (C15)
    Show,
    /// required methods with by-value / Rc / Arc receivers: inside a default body they are
    /// forwarded through `from_delegator` (the instance travels through the helper *and back*)
    V2Req,
    V2Prov,
    Rc2Req,
    Rc2Prov,
    Arc2Req,
    Arc2Prov,
    /// a method without parameters (zero-sized inputs)
    Z0,
    /// a provided *generic* method, two instantiations
    GpU8,
    GpU16,
    /// deep composites with an owned single-use leaf (C12)
    OwnDeepOpt,
    OwnDeepPoll,
    OwnPollMulti,
    OwnOptMulti,
    OwnUnit,
    /// std::process::Termination::report as a mocked method (mock-std)
    TermReport,
    /// a method of a generic trait whose signature does not mention the type parameter, two instantiations
    GnU8,
    GnU16,
    /// a required method whose answer function takes a clone of the instance it is given (C09)
    StashReq,
}

#[derive(Clone, Copy, Debug, PartialEq, Eq)]
pub enum Recv {
    Ref,
    Mut,
    Val,
    Rc,
    Arc,
    Pin,
}

#[derive(Clone, Copy, Debug)]
pub struct MInfo {
    pub m: M,
    pub trait_ident: &'static str,
    pub method_ident: &'static str,
    pub two_args: bool,
    pub has_default: bool,
    pub has_unmock: bool,
    pub recv: Recv,
    pub is_async: bool,
}

pub const ALL_M: &[M] = &[
    M::A0,
    M::A1,
    M::B0,
    M::B1,
    M::B2,
    M::B3,
    M::Gm,
    M::Gp,
    M::VReq,
    M::VProv,
    M::RcReq,
    M::RcProv,
    M::ArcReq,
    M::ArcProv,
    M::PinReq,
    M::PinProv,
    M::Af,
    M::Ag,
    M::Ai,
    M::At,
    M::GenU8,
    M::GenU16,
    M::GmU8,
    M::GmU16,
    M::GiU8,
    M::GiU16,
    M::N0,
    M::E0,
    M::LendA,
    M::LendB,
    M::LendMut,
    M::Lent,
    M::LendClone,
    M::LendGuard,
    M::LendVia,
    M::LendViaMut,
    M::LendZ,
    M::OwnSingle,
    M::OwnMulti,
    M::OwnOpt,
    M::OwnRes,
    M::OwnTup,
    M::OwnTup1,
    M::OwnVec,
    M::OwnTup3,
    M::S0,
    M::S1,
    M::S2,
    M::D0,
    M::Vu,
    M::RcU,
    M::Show,
    M::V2Req,
    M::V2Prov,
    M::Rc2Req,
    M::Rc2Prov,
    M::Arc2Req,
    M::Arc2Prov,
    M::Z0,
    M::GpU8,
    M::GpU16,
    M::OwnDeepOpt,
    M::OwnDeepPoll,
    M::OwnPollMulti,
    M::OwnOptMulti,
    M::OwnUnit,
    M::TermReport,
    M::GnU8,
    M::GnU16,
    M::StashReq,
];

impl M {
    pub fn info(self) -> MInfo {
        let (t, n, two, d, u, r, a) = match self {
            M::A0 => ("Alpha", "a0", false, false, true, Recv::Ref, false),
            M::A1 => ("Alpha", "a1", false, false, false, Recv::Ref, false),
            M::B0 => ("Beta", "b0", false, true, false, Recv::Ref, false),
            M::B1 => ("Beta", "b1", false, true, true, Recv::Ref, false),
            M::B2 => ("Beta", "b2", true, false, false, Recv::Ref, false),
            M::B3 => ("Beta", "b3", false, false, true, Recv::Ref, false),
            M::Gm => ("Gamma", "gm", false, false, true, Recv::Mut, false),
            M::Gp => ("Gamma", "gp", false, true, false, Recv::Mut, false),
            M::VReq => ("ByVal", "v_req", false, false, false, Recv::Ref, false),
            M::VProv => ("ByVal", "v_prov", false, true, false, Recv::Val, false),
            M::RcReq => ("ByRc", "rc_req", false, false, false, Recv::Ref, false),
            M::RcProv => ("ByRc", "rc_prov", false, true, false, Recv::Rc, false),
            M::ArcReq => ("ByArc", "arc_req", false, false, false, Recv::Ref, false),
            M::ArcProv => ("ByArc", "arc_prov", false, true, false, Recv::Arc, false),
            M::PinReq => ("ByPin", "pin_req", false, false, false, Recv::Pin, false),
            M::PinProv => ("ByPin", "pin_prov", false, true, false, Recv::Pin, false),
            M::Af => ("AsyncA", "af", false, false, true, Recv::Ref, true),
            M::Ag => ("AsyncA", "ag", false, false, false, Recv::Ref, true),
            M::Ai => ("AsyncA", "ai", false, false, false, Recv::Ref, true),
            M::At => ("AsyncT", "at", false, false, true, Recv::Ref, true),
            M::GenU8 => ("Gen", "g", false, false, false, Recv::Ref, false),
            M::GenU16 => ("Gen", "g", false, false, false, Recv::Ref, false),
            M::GmU8 => ("GenM", "gm", false, false, false, Recv::Ref, false),
            M::GmU16 => ("GenM", "gm", false, false, false, Recv::Ref, false),
            M::GiU8 => ("GenI", "gi", false, false, false, Recv::Ref, false),
            M::GiU16 => ("GenI", "gi", false, false, false, Recv::Ref, false),
            M::GnU8 => ("Gen", "nt", false, false, false, Recv::Ref, false),
            M::GnU16 => ("Gen", "nt", false, false, false, Recv::Ref, false),
            M::StashReq => ("Stash", "stash_req", false, false, false, Recv::Ref, false),
            M::N0 => ("NoApi", "n0", false, false, true, Recv::Ref, false),
            M::E0 => ("Expl", "e0", true, false, true, Recv::Ref, false),
            M::LendA => ("Lend", "lend_a", false, false, false, Recv::Ref, false),
            M::LendB => ("Lend", "lend_b", false, false, false, Recv::Ref, false),
            M::LendMut => ("Lend", "lend_mut", false, false, false, Recv::Mut, false),
            M::Lent => ("Lend", "lent", false, false, false, Recv::Ref, false),
            M::LendClone => ("Lend", "lend_clone", false, false, false, Recv::Ref, false),
            M::LendGuard => ("Lend", "lend_guard", false, false, false, Recv::Ref, false),
            M::LendVia => ("Lend", "lend_via", false, true, false, Recv::Ref, false),
            M::LendViaMut => ("Lend", "lend_via_mut", false, true, false, Recv::Mut, false),
            M::LendZ => ("Lend", "lend_z", false, false, false, Recv::Ref, false),
            M::OwnSingle => ("Own", "own_single", false, false, true, Recv::Ref, false),
            M::OwnMulti => ("Own", "own_multi", false, false, false, Recv::Ref, false),
            M::OwnOpt => ("Own", "own_opt", false, false, false, Recv::Ref, false),
            M::OwnRes => ("Own", "own_res", false, false, false, Recv::Ref, false),
            M::OwnTup => ("Own", "own_tup", false, false, false, Recv::Ref, false),
            M::OwnTup1 => ("Own", "own_tup1", false, false, false, Recv::Ref, false),
            M::OwnVec => ("Own", "own_vec", false, false, false, Recv::Ref, false),
            M::OwnTup3 => ("Own", "own_tup3", false, false, false, Recv::Ref, false),
            M::S0 => ("Skip", "s0", false, false, true, Recv::Ref, false),
            M::S1 => ("Skip", "s1", false, false, false, Recv::Ref, false),
            M::S2 => ("Skip", "s2", false, false, true, Recv::Ref, false),
            M::D0 => ("DbgT", "d0", false, false, true, Recv::Ref, false),
            M::Vu => ("ByValU", "vu", false, false, true, Recv::Val, false),
            M::RcU => ("ByRcU", "rcu", false, false, true, Recv::Rc, false),
            M::Show => ("FmtT", "show", false, true, false, Recv::Ref, false),
            M::V2Req => ("ByVal2", "v2_req", false, false, false, Recv::Val, false),
            M::V2Prov => ("ByVal2", "v2_prov", false, true, false, Recv::Val, false),
            M::Rc2Req => ("ByRc2", "rc2_req", false, false, false, Recv::Rc, false),
            M::Rc2Prov => ("ByRc2", "rc2_prov", false, true, false, Recv::Rc, false),
            M::Arc2Req => ("ByArc2", "arc2_req", false, false, false, Recv::Arc, false),
            M::Arc2Prov => ("ByArc2", "arc2_prov", false, true, false, Recv::Arc, false),
            M::Z0 => ("Zero", "z0", false, false, true, Recv::Ref, false),
            M::GpU8 => ("GenM", "gp", false, true, false, Recv::Ref, false),
            M::GpU16 => ("GenM", "gp", false, true, false, Recv::Ref, false),
            M::OwnDeepOpt => ("Own", "own_deep_opt", false, false, false, Recv::Ref, false),
            M::OwnDeepPoll => ("Own", "own_deep_poll", false, false, false, Recv::Ref, false),
            M::OwnPollMulti => ("Own", "own_poll_multi", false, false, false, Recv::Ref, false),
            M::OwnOptMulti => ("Own", "own_opt_multi", false, false, false, Recv::Ref, false),
            M::OwnUnit => ("Own", "own_unit", false, false, false, Recv::Ref, false),
            M::TermReport => ("Termination", "report", false, false, false, Recv::Val, false),
        };
        MInfo {
            m: self,
            trait_ident: t,
            method_ident: n,
            two_args: two,
            has_default: d,
            has_unmock: u,
            recv: r,
            is_async: a,
        }
    }

    pub fn path(self) -> String {
        let i = self.info();
        format!("{}::{}", i.trait_ident, i.method_ident)
    }

    /// size of the argument domain (index = x + 4*y)
    pub fn domain(self) -> u32 {
        if self == M::Z0 {
            1
        } else if self.info().two_args {
            16
        } else {
            4
        }
    }
}

pub fn arg_index(x: u8, y: u8) -> u32 {
    (x as u32 & 3) + 4 * (y as u32 & 3)
}

#[derive(Serialize, Deserialize, Clone, Copy, Debug, PartialEq, Eq, Hash)]
pub enum Form {
    SomeCall,
    EachCall,
    NextCall,
    Stub,
}

impl Form {
    pub fn ordered(self) -> bool {
        matches!(self, Form::NextCall)
    }
}

#[derive(Serialize, Deserialize, Clone, Copy, Debug, PartialEq, Eq, Hash)]
pub enum Quant {
    /// no quantifier written
    Unq,
    Once,
    N(u32),
    AtLeast(u32),
}

/// A small script run by user code the mock calls (answer function, real function, default body):
/// make these nested calls on the mock it was given, then return a fresh unique value.
#[derive(Serialize, Deserialize, Clone, Debug, PartialEq, Eq, Hash, Default)]
pub struct Prog {
    /// (method, x offset, y): the nested call uses x = (offset + caller's x) % 4
    pub calls: Vec<(M, u8, u8)>,
}

#[derive(Serialize, Deserialize, Clone, Debug, PartialEq, Eq, Hash)]
pub enum Resp {
    Returns,
    ReturnsDefault,
    /// `answers(&'static fn)`
    Answers(Prog),
    /// `answers_arc(Arc<fn>)`
    AnswersArc(Prog),
    Panics,
    Unmocked,
    DefaultImpl,
}

impl Resp {
    pub fn name(&self) -> &'static str {
        match self {
            Resp::Returns => "returns",
            Resp::ReturnsDefault => "returns_default",
            Resp::Answers(_) => "answers",
            Resp::AnswersArc(_) => "answers_arc",
            Resp::Panics => "panics",
            Resp::Unmocked => "applies_unmocked",
            Resp::DefaultImpl => "applies_default_impl",
        }
    }
}

#[derive(Serialize, Deserialize, Clone, Debug, PartialEq, Eq, Hash)]
pub struct Seg {
    pub resp: Resp,
    pub quant: Quant,
}

#[derive(Serialize, Deserialize, Clone, Debug, PartialEq, Eq, Hash)]
pub struct PatternSpec {
    /// bitmask over the argument domain: bit i set <=> the matcher accepts argument index i
    pub pred: u32,
    /// false: the matcher closure never registers a function (NoMatcherFunction error kind)
    #[serde(default = "yes")]
    pub has_matcher: bool,
    /// response chain; all but the last quantifier are exact (`then()` needs an exact count)
    pub segs: Vec<Seg>,
    /// true: the matcher is written with the real `matching!` macro (a fixed table of forms whose
    /// accepted set is `pred`); no faults can be injected into such a matcher
    #[serde(default)]
    pub macro_form: bool,
}

fn yes() -> bool {
    true
}

#[derive(Serialize, Deserialize, Clone, Debug, PartialEq, Eq, Hash)]
pub struct ClauseSpec {
    pub m: M,
    pub form: Form,
    /// exactly one unless form == Stub
    pub patterns: Vec<PatternSpec>,
}

#[derive(Serialize, Deserialize, Clone, Debug, PartialEq, Eq, Hash, Default)]
pub struct Config {
    pub partial: bool,
    pub clauses: Vec<ClauseSpec>,
    /// shape of the tuple nesting the clause list is routed through
    pub nest_seed: u64,
    /// programs of real (unmock) functions, per method
    pub real_progs: Vec<(M, Prog)>,
    /// programs of default bodies, per method (only required methods of the same trait)
    pub default_progs: Vec<(M, Prog)>,
    /// fixed-form clauses of the lending / owned-value worlds, appended after `clauses`
    #[serde(default)]
    pub specials: Vec<Special>,
}

/// Clauses for methods whose responses are instrumented values (C12, C13, C09).
#[derive(Serialize, Deserialize, Clone, Debug, PartialEq, Eq, Hash)]
pub enum Special {
    /// Stash::stash_req: each_call(_).answers(|u| { keep u.clone() for the caller; .. })
    StashClone,
    /// each_call(_).answers(|u| u.make_ref(ValA))
    LendA,
    LendB,
    /// each_call(_).answers(|u| u.make_mut(ValA))
    LendMut,
    /// each_call(_).returns(Tracked{id}) stored in the pattern and lent on every call
    Lent { id: u32 },
    /// each_call(_).answers(|u| u.make_ref(u.clone()))
    LendClone,
    /// each_call(_).answers(|u, x| u.make_ref(GuardVal { clone: u.clone(), .. })): a lent value that owns
    /// a clone and, when it is released, makes one (contained) call to Alpha::a1 through it
    LendGuard,
    /// each_call(_).answers(|u| u.make_ref(ZTok)): a zero-sized value with a destructor
    LendZ,
    /// some_call / next_call (ordered) .returns(Tracked{id}) [.once()] [.then().answers(fresh value)]
    OwnSingle { ordered: bool, once: bool, then_answers: bool, id: u32 },
    /// returns(TrackedC{id}) quantified for repeated use
    OwnMulti { quant: Quant, each_call: bool, id: u32 },
    /// returns(TrackedC{id}).n_times(n).then().returns(TrackedC{id2}): two stored values on one chain
    OwnMultiThen { n: u32, each_call: bool, id: u32, id2: u32 },
    /// -> Option<Tracked>, single use
    OwnOpt { id: u32 },
    /// -> Result<&u32, Tracked>: Err leaf owned, single use
    OwnRes { id: u32 },
    /// -> (&u32, TrackedC) for repeated use
    OwnTup { quant: Quant, id: u32 },
    /// -> (&u32, Tracked), single use
    OwnTup1 { id: u32 },
    /// -> Vec<Result<&u32, Tracked>> with one owned leaf, single use
    OwnVec { id: u32 },
    /// -> (&u32, Tracked, Tracked): two owned leaves (ids id and id+1), single use
    OwnTup3 { id: u32 },
    /// -> Option<Result<&u32, Tracked>>: Some(Err(owned)), single use
    OwnDeepOpt { id: u32 },
    /// -> Poll<Result<&u32, Tracked>>: Ready(Err(owned)), single use
    OwnDeepPoll { id: u32 },
    /// each_call(_).returns(Poll::Ready(Err(TrackedC))) with a multi-use quantifier
    OwnPollMulti { quant: Quant, id: u32 },
    /// each_call(_).returns(Some(Err(TrackedC))) with a multi-use quantifier (Deep Option layer)
    OwnOptMulti { quant: Quant, id: u32 },
    /// some_call(_).returns(()): a single-use response of a method that returns nothing
    OwnUnit { id: u32 },
    /// TerminationMock::report.each_call(matching!()).returns(SUCCESS / FAILURE): report() hands out
    /// the mocked code; the instance is verified when it is dropped at the end of report()
    MockedReport { success: bool },
    /// Termination::report mocked with a `panics(..)` response: report() is a call like any other
    MockedReportPanics,
}

#[derive(Serialize, Deserialize, Clone, Copy, Debug, PartialEq, Eq, Hash)]
pub enum Fault {
    /// the matcher of the pattern with this uid panics whenever invoked during the call
    MatcherPanic { uid: u16 },
    /// the same booby trap on a matcher that has no business being evaluated for this call: a pattern
    /// declared after the first accepting one (unordered), or any pattern but the owner of the current
    /// slot (ordered). It must never go off.
    MatcherMustNotRun { uid: u16 },
    /// the n-th user program invoked during this call panics after `pos` nested calls
    ProgPanic { nth: u8, pos: u8 },
    /// Clone of a multi-use return value panics
    ClonePanic,
    /// Debug of the argument panics (reached only while the mock renders an error)
    DebugPanic,
    /// not a fault of the call itself: the call is made by a destructor that runs while its thread
    /// unwinds from a user panic (the destructor contains whatever the call raises). The mock must
    /// treat it like any other call.
    WhileUnwinding,
}

#[derive(Serialize, Deserialize, Clone, Debug, PartialEq, Eq, Hash)]
pub enum Op {
    /// call method `m` through the instance in `slot`
    Call {
        slot: u8,
        m: M,
        x: u8,
        y: u8,
        /// wrap in catch_unwind; false: a panic kills the simulated thread
        catch: bool,
        fault: Option<Fault>,
        /// for Rc/Arc receivers: keep a second handle alive across the call
        #[serde(default)]
        keep: bool,
    },
    Clone {
        src: u8,
        dst: u8,
    },
    /// a clone taken by the answer function of `Stash::stash_req` (from the instance *it* is given), called
    /// directly or through the provided `stash_prov`, and handed to the caller, who puts it into `dst`
    CloneInside {
        src: u8,
        dst: u8,
        via_default: bool,
    },
    Drop {
        slot: u8,
    },
    /// move the instance from the shared slot onto this thread's stack (dropped when the thread ends
    /// or dies)
    Hold {
        slot: u8,
    },
    Verify {
        slot: u8,
    },
    Report {
        slot: u8,
    },
    NoVerifyInDrop {
        slot: u8,
    },
    /// block until all threads in the bitmask have finished
    Wait {
        mask: u8,
    },
    /// user-level panic between calls (assert failure in a test body)
    UserPanic {
        catch: bool,
    },
    /// a mock of its own on plain OS threads that come and go (no simulated scheduling involved):
    /// 0 = built on a thread that exits, dropped on a thread spawned afterwards; 1 = the same with
    /// verify(); 2 = built by a thread that keeps it in a thread-local and exits (the thread-local's
    /// destructor drops and thereby verifies it - all expectations met)
    FreshThreads {
        kind: u8,
    },
    /// `n` calls of `m(x)` in a row through the instance in `slot`, as one scheduling unit and without a
    /// record per call: the result is the run-length encoding of what came back (scale: tens of
    /// thousands of matches of one pattern)
    CallStorm {
        slot: u8,
        m: M,
        x: u8,
        n: u32,
    },
    /// clone the instance in `slot` `n` times, dropping every clone at once (scale: tens of thousands
    /// of clones over the life of one mock)
    CloneStorm {
        slot: u8,
        n: u32,
    },
    /// the instance in `slot` is owned by a frame that a (caught) user panic unwinds: it is dropped
    /// while its thread is panicking - no verification, but everything it lent is released
    UnwindDrop {
        slot: u8,
    },
    /// a (caught) user panic whose unwinding runs a fixture destructor that builds a mock of its own,
    /// optionally clones it, and drops both - all while the thread is unwinding
    UnwindScratch {
        unmet: bool,
        with_clone: bool,
    },
    /// lending world: borrow the instance for a while, take references from it, keep re-reading
    /// all of them after every further step
    LendSession {
        slot: u8,
        /// true: the thread has the instance exclusively (`&mut`), which allows `make_mut`
        exclusive: bool,
        steps: Vec<LendStep>,
    },
    /// block until `n` calls of the run have completed (keeps a history in a fixed order while it is
    /// spread over several threads)
    AwaitSeq {
        n: u32,
    },
    /// twin side of C16: call the registered real function directly with the mock as its dependency
    DirectReal {
        slot: u8,
        m: M,
        x: u8,
        y: u8,
    },
    /// executor world (C16): create one future per task, then follow the plan (poll / drop), then
    /// poll what is left to completion
    AsyncGroup {
        slot: u8,
        tasks: Vec<(M, u8)>,
        plan: Vec<ExecStep>,
    },
    /// single-use / multi-use tracked value request
    Own {
        slot: u8,
        which: OwnKind,
        x: u8,
        catch: bool,
        /// the receiving thread dies holding the value
        die_with_value: bool,
        fault: Option<Fault>,
    },
}

#[derive(Serialize, Deserialize, Clone, Copy, Debug, PartialEq, Eq, Hash)]
pub enum ExecStep {
    Poll(u8),
    Drop(u8),
}

#[derive(Serialize, Deserialize, Clone, Copy, Debug, PartialEq, Eq, Hash)]
pub enum LendStep {
    /// take `n` references of this kind; the values get ids val, val+1, ...
    Take { kind: LendKind, val: u32, n: u32 },
    /// re-read everything held (also done implicitly after every Take)
    Check,
    /// exclusive sessions only: ends all shared borrows, then `make_mut`
    MakeMut { val: u32 },
    /// exclusive sessions only: a provided `&mut self` method whose default body lends through the
    /// delegation helper
    ViaMut { val: u32 },
    /// let other threads run
    Yield,
}

#[derive(Serialize, Deserialize, Clone, Copy, Debug, PartialEq, Eq, Hash)]
pub enum LendKind {
    /// answer function calling make_ref with a ValA
    MakeRefA,
    /// answer function calling make_ref with a ValB (second type)
    MakeRefB,
    /// borrowed `returns()` value stored in the pattern
    Lent,
    /// make_ref reached through the default-impl delegation helper
    ViaHelper,
    /// make_ref(self.clone()): a clone of the mock lent by the mock
    CloneOfSelf,
    /// make_ref of a zero-sized value that has a destructor
    MakeRefZ,
    /// a value lent by a clone that was itself lent by the mock: make_ref(self.clone()), then make_ref
    /// on that lent clone - a value chain inside a value chain
    ViaLentClone,
}

#[derive(Serialize, Deserialize, Clone, Copy, Debug, PartialEq, Eq, Hash)]
pub enum OwnKind {
    /// -> Tracked (non-Clone)
    Single,
    /// -> TrackedC (Clone)
    Multi,
    /// -> Option<Tracked>
    Opt,
    /// -> Result<&u32, Tracked>
    Res,
    /// -> (&u32, TrackedC), repeated use
    Tup,
    /// -> (&u32, Tracked), single use
    Tup1,
    /// -> Vec<Result<&u32, Tracked>>, single use
    Vec,
    /// -> (&u32, Tracked, Tracked), single use, two owned leaves
    Tup3,
    /// -> Option<Result<&u32, Tracked>>, single use
    DeepOpt,
    /// -> Poll<Result<&u32, Tracked>>, single use
    DeepPoll,
    PollMulti,
    OptMulti,
    Unit,
}

#[derive(Serialize, Deserialize, Clone, Copy, Debug, PartialEq, Eq, Hash)]
pub enum Strategy {
    Uniform,
    /// stay on the running thread with probability p/100
    Sticky(u8),
    /// PCT-style with d priority change points
    Pct(u8),
    /// run each thread to completion in index order (sequential twin)
    RoundRobin,
    /// keep the running thread running; when it cannot run, the lowest runnable index
    /// (the fallback behind an explicit, minimised decision list)
    Stay,
    /// no baton at all: the simulated threads are plain threads and somebody else (Miri) owns
    /// the schedule
    Free,
}

#[derive(Serialize, Deserialize, Clone, Debug, PartialEq, Eq, Hash)]
pub struct SchedSpec {
    /// true: every enabled unimock yield point is a scheduling decision; false: only whole operations
    pub fine: bool,
    pub strategy: Strategy,
    pub seed: u64,
    /// bitmask of Site kinds enabled as preemption points (fine mode)
    pub sites: u16,
    /// explicit choices (index into the sorted runnable set) to follow before falling back to the
    /// strategy; written by the recorder, consumed by replay
    #[serde(default)]
    pub choices: Vec<u8>,
}

#[derive(Serialize, Deserialize, Clone, Debug, PartialEq, Eq, Hash)]
pub struct Scenario {
    pub prop: String,
    pub base_seed: u64,
    pub run: u64,
    /// which batch of the property's world this run belongs to (e.g. "fault-free", "faults")
    pub batch: String,
    pub config: Config,
    /// optional second configuration (C18 second mock; twin variants)
    #[serde(default)]
    pub config2: Option<Config>,
    pub threads: Vec<Vec<Op>>,
    pub sched: SchedSpec,
    /// world specific knob values (recorded for the replay)
    #[serde(default)]
    pub knobs: Vec<(String, i64)>,
}

impl Scenario {
    pub fn knob(&self, name: &str) -> Option<i64> {
        self.knobs.iter().find(|(n, _)| n == name).map(|(_, v)| *v)
    }
    pub fn n_ops(&self) -> usize {
        self.threads.iter().map(|t| t.len()).sum()
    }
}

// ---------------------------------------------------------------------------------------------
// Flattened view of a configuration: the patterns per method in declaration order, with the
// unique id ("uid") that names them in tokens and in `pat_debug`.

#[derive(Clone, Debug)]
pub struct FlatPattern {
    pub uid: u16,
    pub m: M,
    pub form: Form,
    pub in_stub: bool,
    pub spec: PatternSpec,
    /// index within its method's pattern list
    pub index: usize,
}

#[derive(Clone, Debug, Default)]
pub struct Flat {
    pub patterns: Vec<FlatPattern>,
    /// methods in order of first mention
    pub methods: Vec<M>,
}

impl Config {
    pub fn flatten(&self) -> Flat {
        let mut flat = Flat::default();
        let mut per_method_len: std::collections::BTreeMap<M, usize> = Default::default();
        for clause in &self.clauses {
            if !flat.methods.contains(&clause.m) && !clause.patterns.is_empty() {
                flat.methods.push(clause.m);
            }
            for p in &clause.patterns {
                let index = per_method_len.entry(clause.m).or_insert(0);
                flat.patterns.push(FlatPattern {
                    uid: flat.patterns.len() as u16,
                    m: clause.m,
                    form: clause.form,
                    in_stub: clause.form == Form::Stub,
                    spec: p.clone(),
                    index: *index,
                });
                *index += 1;
            }
        }
        flat
    }

    pub fn real_prog(&self, m: M) -> Prog {
        self.real_progs
            .iter()
            .find(|(mm, _)| *mm == m)
            .map(|(_, p)| p.clone())
            .unwrap_or_default()
    }

    pub fn default_prog(&self, m: M) -> Prog {
        self.default_progs
            .iter()
            .find(|(mm, _)| *mm == m)
            .map(|(_, p)| p.clone())
            .unwrap_or_default()
    }
}

impl Flat {
    pub fn of_method(&self, m: M) -> Vec<&FlatPattern> {
        self.patterns.iter().filter(|p| p.m == m).collect()
    }
    pub fn mentioned(&self, m: M) -> bool {
        self.methods.contains(&m)
    }
    pub fn ordered(&self, m: M) -> bool {
        self.patterns
            .iter()
            .find(|p| p.m == m)
            .map(|p| p.form.ordered())
            .unwrap_or(false)
    }
}
