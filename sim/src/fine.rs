//! Fine world: every unimock yield point is a scheduling decision. C10 (sequential twin of the real
//! code) and C08 (containment of recorded errors) live here.

use crate::ctx::*;
use crate::gen::*;
use crate::oracle::{final_ops, v, Violation};
use crate::props::{base_stats, Checked, RunStats};
use crate::rng::Rng;
use crate::spec::*;
use crate::world::{self, RunResult};

// ---------------------------------------------------------------------------------------------
// generator shared by C10 / C08 / C12-style fine runs

pub struct FineOpts {
    pub min_threads: usize,
    pub max_threads: usize,
    pub max_calls_per_thread: usize,
    pub nested: bool,
    pub shared_original_pct: u64,
    pub mock_panics_wanted: bool,
}

pub fn gen_fine_config(rng: &mut Rng, nested: bool, panic_heavy: bool) -> Config {
    let mut co = CfgOpts::default();
    co.max_methods = 2;
    co.max_patterns = 3;
    co.ordered_pct = 35;
    co.nested_calls = nested;
    co.with_mut = false;
    co.allow_partial = true;
    co.zero_counts = false;
    co.resp_weights = if panic_heavy { [30, 4, 1, 15, 20, 15, 15] } else { [55, 4, 1, 25, 5, 5, 5] };
    // a small pool makes threads collide on the same patterns
    let pool_size = rng.range(1, 3);
    let mut pool = PLAIN_REF.to_vec();
    rng.shuffle(&mut pool);
    pool.truncate(pool_size);
    if panic_heavy && rng.chance(1, 5) {
        // an argument type whose Debug rendering is long and not ASCII
        pool.push(M::D0);
    }
    co.pool = pool;
    let mut cfg = gen_config(rng, &co);
    if !nested {
        for (_, p) in cfg.real_progs.iter_mut() {
            p.calls.clear();
        }
        for (_, p) in cfg.default_progs.iter_mut() {
            p.calls.clear();
        }
    }
    cfg
}

/// threads: thread 0 clones for everybody (prelude), each thread makes its calls, thread 0 joins,
/// drops the clones and verifies the original.
pub fn gen_fine_history(rng: &mut Rng, cfg: &Config, o: &FineOpts) -> (Vec<Vec<Op>>, usize) {
    let n_threads = rng.range(o.min_threads, o.max_threads);
    let st = Steer::new(cfg);
    let mut threads: Vec<Vec<Op>> = vec![vec![]; n_threads];
    let share_original = rng.chance(o.shared_original_pct, 100);
    // sometimes nobody ever clones: all threads call through one shared `&Unimock`
    let no_clones = share_original && rng.chance(1, 2);
    for t in 1..n_threads {
        if !no_clones {
            threads[0].push(Op::Clone { src: 0, dst: t as u8 });
        }
    }
    let prelude = threads[0].len();
    let mut methods = st.flat.methods.clone();
    if methods.is_empty() || rng.chance(1, 6) {
        methods.push(*rng.pick(PLAIN_REF));
    }
    // contended arguments: a few argument tuples reused by all threads
    let mut hot: Vec<(M, u8, u8)> = vec![];
    for _ in 0..rng.range(1, 3) {
        let m = *rng.pick(&methods);
        let (x, y) = if let (Some(p), true) = (st.flat.of_method(m).first(), rng.chance(2, 3)) {
            st.args_for(rng, p.uid).unwrap_or((rng.below(4) as u8, 0))
        } else {
            (rng.below(4) as u8, if m.info().two_args { rng.below(4) as u8 } else { 0 })
        };
        hot.push((m, x, y));
    }
    for t in 0..n_threads {
        let n = rng.range(1, o.max_calls_per_thread);
        for _ in 0..n {
            let (m, x, y) = if rng.chance(4, 5) {
                *rng.pick(&hot)
            } else {
                let m = *rng.pick(&methods);
                (m, rng.below(4) as u8, if m.info().two_args { rng.below(4) as u8 } else { 0 })
            };
            let slot = if t == 0 || share_original { 0 } else { t as u8 };
            // now and then the call comes from a destructor running while the thread unwinds
            let fault = if o.mock_panics_wanted && m.info().recv == Recv::Ref && rng.chance(1, 12) { Some(Fault::WhileUnwinding) } else { None };
            threads[t].push(Op::Call { slot, m, x, y, catch: true, fault, keep: false });
        }
    }
    if n_threads > 1 {
        threads[0].push(Op::Wait { mask: 0xfe });
    }
    for t in 1..n_threads {
        if !no_clones {
            threads[0].push(Op::Drop { slot: t as u8 });
        }
    }
    threads[0].push(Op::Verify { slot: 0 });
    (threads, prelude)
}

pub fn gen_c10(base_seed: u64, batch: &str, run: u64, rng: &mut Rng) -> Scenario {
    let cfg = gen_fine_config(rng, false, false);
    // now and then many threads with one call each instead of few threads with several
    let crowd = rng.chance(1, 20);
    let o = FineOpts {
        min_threads: if crowd { 6 } else { 2 },
        max_threads: if crowd { 8 } else { 4 },
        max_calls_per_thread: if crowd { 1 } else { 3 },
        nested: false,
        shared_original_pct: 35,
        mock_panics_wanted: false,
    };
    let (mut threads, prelude) = gen_fine_history(rng, &cfg, &o);
    // keep the linearisation search bounded: at most 9 calls in total
    let mut total: usize = threads.iter().map(|t| t.iter().filter(|o| matches!(o, Op::Call { .. })).count()).sum();
    'trim: while total > 9 {
        for t in (0..threads.len()).rev() {
            if let Some(i) = threads[t].iter().rposition(|o| matches!(o, Op::Call { .. })) {
                if threads[t].iter().filter(|o| matches!(o, Op::Call { .. })).count() > 1 {
                    threads[t].remove(i);
                    total -= 1;
                    continue 'trim;
                }
            }
        }
        break;
    }
    Scenario {
        prop: "C10".into(),
        base_seed,
        run,
        batch: batch.into(),
        config: cfg,
        config2: None,
        threads,
        sched: gen_sched(rng, true),
        knobs: vec![("prelude".into(), prelude as i64)],
    }
}

// ---------------------------------------------------------------------------------------------
// C10 oracle: sequential twin

/// run-independent description of what a top-level call produced
#[derive(Clone, Debug, PartialEq)]
pub enum Desc {
    Ret(u16, usize),
    Default0,
    Prog(ProgKind, u8, u8),
    MockPanic(String),
    UserPanic,
    Skipped,
    Other(u64),
}

pub fn describe_call(log: &Log, c: &CallRec) -> Desc {
    if let Some(inv) = c.prog {
        if let Some(p) = log.progs.iter().find(|p| p.inv == inv) {
            if matches!(c.outcome, Some(Outcome::Value(_))) {
                return Desc::Prog(p.kind, p.x, p.y);
            }
        }
    }
    match &c.outcome {
        Some(Outcome::Value(0)) => Desc::Default0,
        Some(Outcome::Value(val)) if val & VAL_KIND_MASK == VAL_RET => Desc::Ret(((val >> 8) & 0xffff) as u16, (val & 0xff) as usize),
        Some(Outcome::Value(val)) => Desc::Other(*val),
        Some(Outcome::MockPanic(s)) => Desc::MockPanic(s.clone()),
        Some(Outcome::UserPanic(_)) => Desc::UserPanic,
        _ => Desc::Skipped,
    }
}

/// What a mock-induced panic says, reduced to what does not depend on *how the call was reached*: the
/// call it names first, the kind of error, the patterns it names. (A twin run reaches the same call
/// directly instead of through a default body / real function; text that describes the route - a
/// "while forwarding .." note, say - is not part of what the statements compare.)
pub fn route_free(d: &Desc) -> Desc {
    match d {
        Desc::MockPanic(s) => {
            let first = s.lines().next().unwrap_or("");
            let sp = first.find(' ').unwrap_or(first.len());
            let lead = match first.find('(') {
                Some(p) if p < sp => first[p..].find(')').map(|q| &first[..p + q + 1]).unwrap_or(&first[..sp]),
                _ => &first[..sp],
            };
            let mut pats: Vec<&str> = vec![];
            let mut rest = s.as_str();
            while let Some(a) = rest.find("#P") {
                match rest[a + 2..].find('#') {
                    Some(b) => {
                        pats.push(&rest[a..a + 2 + b + 1]);
                        rest = &rest[a + 2 + b + 1..];
                    }
                    None => break,
                }
            }
            pats.sort();
            pats.dedup();
            Desc::MockPanic(format!("{}|{}|{:?}", lead.trim_end_matches(':'), crate::props::classify_mock_panic(s), pats))
        }
        other => other.clone(),
    }
}

#[derive(Clone, Debug)]
struct HOp {
    thread: usize,
    index: usize,
    invoke: u64,
    ret: u64,
    desc: Desc,
}

fn top_calls(scn: &Scenario, res: &RunResult) -> Vec<HOp> {
    let mut out = vec![];
    for o in &res.log.ops {
        if let (OpResult::Call(cid), Some(Op::Call { .. })) = (&o.result, scn.threads[o.thread as usize].get(o.index as usize)) {
            // (looked up by operation: under free-running threads the recorded call id may belong
            // to a call another thread logged in between)
            let _ = cid;
            let desc = match res.log.calls.iter().find(|c| c.op == (o.thread, o.index) && c.parent.is_none()) {
                Some(c) => describe_call(&res.log, c),
                None => Desc::Skipped,
            };
            out.push(HOp { thread: o.thread as usize, index: o.index as usize, invoke: o.start_step, ret: o.end_step, desc });
        }
    }
    out
}

/// the sequential twin of the scenario with its calls in the given order
fn twin_scenario(scn: &Scenario, order: &[(usize, usize)], with_tail: bool) -> Scenario {
    let prelude = scn.knob("prelude").unwrap_or(0) as usize;
    let mut ops: Vec<Op> = scn.threads[0][..prelude].to_vec();
    for (t, i) in order {
        ops.push(scn.threads[*t][*i].clone());
    }
    if with_tail {
        for op in &scn.threads[0][prelude..] {
            match op {
                Op::Call { .. } | Op::Wait { .. } => {}
                other => ops.push(other.clone()),
            }
        }
    }
    Scenario {
        prop: scn.prop.clone(),
        base_seed: scn.base_seed,
        run: scn.run,
        batch: "twin".into(),
        config: scn.config.clone(),
        config2: None,
        threads: vec![ops],
        sched: SchedSpec { fine: false, strategy: Strategy::RoundRobin, seed: 0, sites: 0, choices: vec![] },
        knobs: vec![("prelude".into(), prelude as i64)],
    }
}

struct Search<'a> {
    scn: &'a Scenario,
    hist: &'a [HOp],
    final_snap: Option<Snap>,
    final_verdict: Option<OpResult>,
    twin_runs: u64,
    cap: u64,
    capped: bool,
    max_depth: usize,
}

impl Search<'_> {
    /// run the twin for `order`, return the descriptions of its calls (+ final state when complete)
    fn run_twin(&mut self, order: &[usize], complete: bool) -> Option<(Vec<Desc>, Option<Snap>, Option<OpResult>)> {
        self.twin_runs += 1;
        let ord: Vec<(usize, usize)> = order.iter().map(|i| (self.hist[*i].thread, self.hist[*i].index)).collect();
        let twin = twin_scenario(self.scn, &ord, complete);
        let res = world::run(&twin);
        if res.timed_out || res.build_error.is_some() {
            return None;
        }
        let calls = top_calls(&twin, &res);
        let prelude = twin.knob("prelude").unwrap_or(0) as usize;
        let mut descs = vec![];
        for k in 0..order.len() {
            let d = calls.iter().find(|c| c.index == prelude + k).map(|c| c.desc.clone()).unwrap_or(Desc::Skipped);
            descs.push(d);
        }
        let (snap, verdict) = if complete {
            match final_ops(&twin, &res).last() {
                Some((o, _)) => (o.pre.clone(), Some(norm_verdict(&o.result))),
                None => (None, None),
            }
        } else {
            (None, None)
        };
        Some((descs, snap, verdict))
    }

    /// Does the complete sequential order `placed` reproduce the observation? The statement of C10
    /// is about positions as a *set* ("N concurrent matches receive precisely the responses of
    /// positions 1..N", "no call lost or counted twice") and about the verdict, so outcomes are
    /// compared as a multiset, not call by call.
    fn matches(&mut self, placed: &[usize]) -> bool {
        match self.run_twin(placed, true) {
            Some((descs, snap, verdict)) => {
                let mut a: Vec<String> = descs.iter().map(identity_free).collect();
                let mut b: Vec<String> = self.hist.iter().map(|h| identity_free(&h.desc)).collect();
                a.sort();
                b.sort();
                if std::env::var("SIM_DEBUG").is_ok() {
                    eprintln!("twin order {placed:?}: outcomes {a:?} vs observed {b:?}; counts {:?} vs {:?}; verdict {verdict:?} vs {:?}", snap.as_ref().map(|s| (&s.counts, s.ordered)), self.final_snap.as_ref().map(|s| (&s.counts, s.ordered)), self.final_verdict);
                }
                a == b
                    && snap.as_ref().map(|s| (&s.counts, s.ordered)) == self.final_snap.as_ref().map(|s| (&s.counts, s.ordered))
                    && verdict == self.final_verdict
            }
            None => false,
        }
    }

    /// enumerate the sequential orders that respect each thread's program order
    fn dfs(&mut self, placed: &mut Vec<usize>) -> bool {
        if self.capped {
            return false;
        }
        self.max_depth = self.max_depth.max(placed.len());
        let n = self.hist.len();
        if placed.len() == n {
            if self.twin_runs >= self.cap {
                self.capped = true;
                return false;
            }
            return self.matches(placed);
        }
        let mut tried: Vec<Op> = vec![];
        for i in 0..n {
            if placed.contains(&i) {
                continue;
            }
            let h = &self.hist[i];
            let blocked = (0..n).any(|j| {
                j != i && !placed.contains(&j) && self.hist[j].thread == h.thread && self.hist[j].index < h.index
            });
            if blocked {
                continue;
            }
            // identical operations are interchangeable under the multiset comparison
            let op_key = match &self.scn.threads[h.thread][h.index] {
                // (the instance stays part of the key: without `std` a panic induced through the
                // original disables its verification, so the routing is observable)
                Op::Call { slot, m, x, y, .. } => {
                    let slot = if cfg!(feature = "stdworld") { 0 } else { *slot };
                    Op::Call { slot, m: *m, x: *x, y: *y, catch: true, fault: None, keep: false }
                }
                o => o.clone(),
            };
            if tried.contains(&op_key) {
                continue;
            }
            tried.push(op_key);
            placed.push(i);
            if self.dfs(placed) {
                return true;
            }
            placed.pop();
        }
        false
    }
}

/// The verdict up to the order in which recorded errors are listed (that order is the order of
/// arrival at the error list, which C10 does not constrain).
pub fn norm_verdict(r: &OpResult) -> OpResult {
    match r {
        OpResult::Panicked(msg) => {
            let mut lines: Vec<String> = msg.split('\n').map(strip_call_args).collect();
            lines.sort();
            OpResult::Panicked(lines.join("\n"))
        }
        other => other.clone(),
    }
}

/// "Trait::method(1, 2): ..." -> "Trait::method(_): ...": which of several concurrent calls ends up
/// with which position is not constrained by C10, so the rendering of the actual arguments is not
/// part of the comparison.
pub fn strip_call_args(line: &str) -> String {
    if let (Some(a), Some(b)) = (line.find('('), line.find("): ")) {
        if a < b && !line[..a].contains(' ') {
            return format!("{}(_{}", &line[..a], &line[b..]);
        }
    }
    line.to_string()
}

fn identity_free(d: &Desc) -> String {
    match d {
        Desc::Prog(kind, _, _) => format!("Prog({kind:?})"),
        Desc::MockPanic(m) => format!("MockPanic({})", strip_call_args(m)),
        other => format!("{other:?}"),
    }
}

pub fn check_c10(scn: &Scenario) -> Checked {
    let res = world::run(scn);
    let mut stats: RunStats = base_stats(scn, &res);
    if res.timed_out || res.sched.deadlock {
        return Checked { violations: vec![], stats, harness_error: Some("run timed out or deadlocked".into()) };
    }
    if let Some(e) = &res.build_error {
        return Checked { violations: vec![], stats, harness_error: Some(format!("mock construction failed: {e}")) };
    }
    let mut violations: Vec<Violation> = vec![];
    let hist = top_calls(scn, &res);
    let finals = final_ops(scn, &res);
    let (final_snap, final_verdict) = match finals.last() {
        Some((o, _)) => (o.pre.clone(), Some(norm_verdict(&o.result))),
        None => (None, None),
    };
    // the statement is about the state *after joining the threads*: every call must have returned
    // before the original is verified, and no clone may be alive (otherwise C09 decides the verdict)
    let joined = match finals.last() {
        Some((o, _)) => hist.iter().all(|h| h.ret < o.start_step) && res.log.calls.iter().all(|c| c.return_step < o.start_step),
        None => false,
    };
    let lifecycle_panic = match finals.last() {
        Some((o, _)) => !crate::oracle::ordinary_verdict_expected(scn, &res.log, o),
        None => true,
    };
    if !joined || lifecycle_panic || finals.len() != 1 {
        stats.nontrivial = false;
        return Checked { violations, stats, harness_error: None };
    }
    // conservation: the sequence position equals the number of calls made to ordered methods
    let flat = scn.config.flatten();
    if let Some(s) = &final_snap {
        let ordered_calls = res.log.calls.iter().filter(|c| flat.mentioned(c.m) && flat.ordered(c.m)).count() as u32;
        // ... as far as the sequence goes: the statement gives the i-th call the i-th slot; where
        // the position rests once every slot is used up is not part of it
        let slots = crate::model::slot_ranges(&flat).iter().map(|r| r.2).max().unwrap_or(0);
        let conserved = if ordered_calls <= slots { s.ordered == ordered_calls } else { s.ordered >= slots };
        if !conserved {
            violations.push(v(
                "C10",
                "ordered-position-conservation",
                "ordered-index",
                format!("{} calls were made to ordered methods but the sequence position is {}", ordered_calls, s.ordered),
            ));
        }
    }
    // first guess: the order in which the operations returned
    let mut guess: Vec<usize> = (0..hist.len()).collect();
    guess.sort_by_key(|i| hist[*i].ret);
    let mut search = Search {
        scn,
        hist: &hist,
        final_snap,
        final_verdict,
        twin_runs: 0,
        cap: if cfg!(miri) { 40 } else { 6000 },
        capped: false,
        max_depth: 0,
    };
    let quick_ok = search.matches(&guess);
    let mut found = quick_ok;
    if !found {
        *stats.probes.entry("linearisation_search_needed".into()).or_default() += 1;
        let mut placed = vec![];
        found = search.dfs(&mut placed);
    }
    stats.extra_runs = search.twin_runs;
    if search.capped {
        *stats.probes.entry("search_capped_inconclusive".into()).or_default() += 1;
    } else if !found {
        violations.push(v(
            "C10",
            "no-sequential-twin",
            "linearisation",
            format!(
                "no sequential order of the {} calls (consistent with each thread's program order) makes a fresh mock produce the observed multiset of outcomes, the final counts and the verdict. observed: {:?}; final counts {:?}; verdict {:?}",
                hist.len(),
                hist.iter().map(|h| (h.thread, h.index, h.invoke, h.ret, &h.desc)).collect::<Vec<_>>(),
                search.final_snap.as_ref().map(|s| (&s.counts, s.ordered)),
                search.final_verdict
            ),
        ));
    }
    // probes: contention actually happened
    let contended = {
        let mut overlap = false;
        for a in &hist {
            for b in &hist {
                if a.thread != b.thread && a.invoke < b.ret && b.invoke < a.ret {
                    overlap = true;
                }
            }
        }
        overlap
    };
    if contended {
        *stats.probes.entry("operations_overlapped_in_time".into()).or_default() += 1;
    }
    if res.sched.switched[2] + res.sched.switched[10] > 0 {
        *stats.probes.entry("preempted_at_atomic_operation".into()).or_default() += 1;
    }
    if res.sched.switched[3] + res.sched.switched[11] > 0 {
        *stats.probes.entry("preempted_at_lock".into()).or_default() += 1;
    }
    stats.nontrivial = hist.len() >= 2 && res.sched.switches > 0;
    Checked { violations, stats, harness_error: None }
}

// ---------------------------------------------------------------------------------------------
// C08: a mock-induced panic anywhere makes final verification fail with that error

pub fn gen_c08(base_seed: u64, batch: &str, run: u64, rng: &mut Rng) -> Scenario {
    let faults = batch == "user-faults";
    let nested = rng.chance(1, 2);
    let mut cfg = gen_fine_config(rng, nested, true);
    // a pattern whose matcher registers no function (one more mock-induced error kind)
    if rng.chance(1, 8) {
        let n = cfg.clauses.len();
        if n > 0 {
            let ci = rng.usize(n);
            if let Some(p) = cfg.clauses[ci].patterns.first_mut() {
                p.has_matcher = false;
            }
        }
    }
    let o = FineOpts {
        min_threads: 1,
        max_threads: 4,
        max_calls_per_thread: 3,
        nested: true,
        shared_original_pct: 30,
        mock_panics_wanted: true,
    };
    let (mut threads, prelude) = gen_fine_history(rng, &cfg, &o);
    // an error that originates in the output layer: a single-use tuple (borrowed element first, owned
    // element later) requested more often than once
    if rng.chance(1, 6) {
        cfg.specials.push(Special::OwnTup1 { id: 140 });
        let n = rng.range(2, 3);
        for _ in 0..n {
            let t = rng.usize(threads.len());
            let slot = if t == 0 { 0 } else { t as u8 };
            let lo = if t == 0 { prelude } else { 0 };
            let hi = threads[t]
                .iter()
                .position(|o| matches!(o, Op::Wait { .. } | Op::Drop { .. } | Op::Verify { .. } | Op::Report { .. }))
                .unwrap_or(threads[t].len())
                .max(lo);
            let at = rng.range(lo, hi);
            threads[t].insert(at, Op::Own { slot, which: OwnKind::Tup1, x: 0, catch: true, die_with_value: false, fault: None });
        }
    }
    // a lent value whose destructor calls the mock (through a clone it owns) while its owner - the
    // original - is being verified: what that call does still belongs to the verdict
    if rng.chance(1, 8) {
        cfg.specials.push(Special::LendGuard);
        let at = prelude.min(threads[0].len());
        threads[0].insert(at, Op::Call { slot: 0, m: M::LendGuard, x: rng.below(4) as u8, y: 0, catch: true, fault: None, keep: false });
    }
    // an error storm: dozens of failing calls with pairwise different texts on one mock
    if rng.chance(1, 20) {
        cfg.partial = false;
        let flat = cfg.flatten();
        let mut combos: Vec<(M, u8, u8)> = vec![];
        for m in [M::B2, M::A0, M::A1, M::B3] {
            if flat.mentioned(m) {
                continue;
            }
            for x in 0..4u8 {
                for y in 0..(if m.info().two_args { 4u8 } else { 1 }) {
                    combos.push((m, x, y));
                }
            }
        }
        rng.shuffle(&mut combos);
        combos.truncate(rng.range(9, 45).min(combos.len()));
        let at = threads[0]
            .iter()
            .position(|o| matches!(o, Op::Wait { .. } | Op::Drop { .. } | Op::Verify { .. } | Op::Report { .. }))
            .unwrap_or(threads[0].len())
            .max(prelude);
        for (k, (m, x, y)) in combos.into_iter().enumerate() {
            threads[0].insert(at + k, Op::Call { slot: 0, m, x, y, catch: true, fault: None, keep: false });
        }
    }
    let st = Steer::new(&cfg);
    // some threads own their clone on their stack and die of an uncaught panic
    for t in 1..threads.len() {
        if rng.chance(1, 3) {
            threads[t].insert(0, Op::Hold { slot: t as u8 });
            for op in threads[t].iter_mut() {
                if let Op::Call { catch, slot, .. } = op {
                    if *slot == t as u8 {
                        // the clone is on the stack now: route the call through the original
                        *slot = 0;
                    }
                    if rng.chance(1, 2) {
                        *catch = false;
                    }
                }
            }
        }
    }
    if faults {
        for t in 0..threads.len() {
            for op in threads[t].iter_mut() {
                if let Op::Call { m, x, y, fault, .. } = op {
                    if rng.chance(1, 4) {
                        *fault = match rng.weighted(&[50, 50]) {
                            0 => {
                                let pats = st.flat.of_method(*m);
                                match st.first_accepting(*m, *x, *y) {
                                    Some(uid) if !st.flat.ordered(*m) => {
                                        let idx = st.flat.patterns[uid as usize].index;
                                        Some(Fault::MatcherPanic { uid: pats[rng.usize(idx + 1)].uid })
                                    }
                                    _ => Some(Fault::ProgPanic { nth: 0, pos: 0 }),
                                }
                            }
                            _ => Some(Fault::ProgPanic { nth: rng.below(2) as u8, pos: rng.below(3) as u8 }),
                        };
                    }
                }
            }
        }
        if rng.chance(1, 5) {
            let t = rng.usize(threads.len());
            let pos = rng.usize(threads[t].len().max(1));
            if !(t == 0 && pos < prelude) {
                let at = if t == 0 { pos.max(prelude) } else { pos };
                let at = at.min(threads[t].len());
                threads[t].insert(at, Op::UserPanic { catch: t == 0 || rng.chance(1, 2) });
            }
        }
    }
    // how the original is finished
    if let Some(last) = threads[0].last_mut() {
        *last = match rng.weighted(&[45, 35, 20]) {
            0 => Op::Verify { slot: 0 },
            1 => Op::Drop { slot: 0 },
            _ => Op::Report { slot: 0 },
        };
    }
    // the original is told not to verify when dropped *before* anybody clones it (the clones inherit
    // that): what the clones' calls did still reaches the explicit verification at the end
    let mut prelude = prelude;
    if rng.chance(1, 8) {
        threads[0].insert(0, Op::NoVerifyInDrop { slot: 0 });
        prelude += 1;
        // (a plain drop would be silent by design then)
        for op in threads[0].iter_mut() {
            if matches!(op, Op::Drop { slot: 0 }) {
                *op = Op::Verify { slot: 0 };
            }
        }
    }
    Scenario {
        prop: "C08".into(),
        base_seed,
        run,
        batch: batch.into(),
        config: cfg,
        config2: None,
        threads,
        sched: gen_sched(rng, true),
        knobs: vec![("prelude".into(), prelude as i64)],
    }
}

pub fn check_c08(scn: &Scenario) -> Checked {
    let res = world::run(scn);
    let mut stats: RunStats = base_stats(scn, &res);
    if res.timed_out || res.sched.deadlock {
        return Checked { violations: vec![], stats, harness_error: Some("run timed out or deadlocked".into()) };
    }
    if let Some(e) = &res.build_error {
        return Checked { violations: vec![], stats, harness_error: Some(format!("mock construction failed: {e}")) };
    }
    let mut violations: Vec<Violation> = vec![];
    let flat = scn.config.flatten();
    let finals = final_ops(scn, &res);
    stats.nontrivial = false;
    if finals.len() != 1 {
        return Checked { violations, stats, harness_error: None };
    }
    let (o, op) = finals[0];
    // texts of the mock-induced panics, taken where they originated (not where they propagated through)
    // (calls made *inside* the final operation come from destructors of lent values, which the
    // instance releases before it reads the error list and judges the counts: they belong to it)
    let inside = |c: &CallRec| c.op == (o.thread, o.index);
    let induced: Vec<&CallRec> = res
        .log
        .calls
        .iter()
        .filter(|c| c.prog.is_none() && matches!(c.outcome, Some(Outcome::MockPanic(_))) && (c.return_step < o.start_step || inside(c)))
        .collect();
    if res.log.calls.iter().any(|c| inside(c)) {
        *stats.probes.entry("call_made_by_a_lent_value_released_during_verification".into()).or_default() += 1;
    }
    let unfinished = res.log.calls.iter().any(|c| c.outcome.is_none() || (c.return_step >= o.start_step && !inside(c)));
    if unfinished {
        return Checked { violations, stats, harness_error: None };
    }
    let mut texts: Vec<String> = induced
        .iter()
        .map(|c| match &c.outcome {
            Some(Outcome::MockPanic(s)) => s.clone(),
            _ => unreachable!(),
        })
        .collect();
    // requests for owned values (not routed through the call log) that the mock answered with a panic
    for r in &res.log.ops {
        if let (Some(Op::Own { .. }), OpResult::Panicked(msg)) = (scn.threads.get(r.thread as usize).and_then(|t| t.get(r.index as usize)), &r.result) {
            if r.end_step < o.start_step {
                texts.push(msg.clone());
            }
        }
    }
    let user_panics = res.log.calls.iter().filter(|c| matches!(c.outcome, Some(Outcome::UserPanic(_))) && c.parent.is_none()).count();
    let key = match op {
        Op::Drop { .. } => "drop",
        Op::Verify { .. } => "verify",
        _ => "report",
    };
    let lifecycle = !crate::oracle::ordinary_verdict_expected(scn, &res.log, o);
    if lifecycle {
        // C09 decides: a clone was still alive (e.g. owned by a thread that was not joined)
        return Checked { violations, stats, harness_error: None };
    }
    stats.nontrivial = res.log.calls.len() >= 1;
    // without `std` a (swallowed) mock-induced panic on the original instance deliberately disables
    // that instance's verification: only errors induced through clones are covered there
    #[cfg(not(feature = "stdworld"))]
    {
        // a call made by a default body runs on the delegation helper, which is a clone: an error
        // induced there is covered even when the outer call went through the original
        let through_helper = |c: &CallRec| {
            let mut cur = c;
            loop {
                let Some(inv) = cur.parent_inv else { return false };
                let Some(prog) = res.log.progs.iter().find(|p| p.inv == inv) else { return false };
                if matches!(prog.kind, ProgKind::DefaultBody(_)) {
                    return true;
                }
                match prog.call.and_then(|cid| res.log.calls.get(cid as usize)) {
                    Some(outer) => cur = outer,
                    None => return false,
                }
            }
        };
        let via_original = induced.iter().any(|c| {
            matches!(scn.threads.get(c.op.0 as usize).and_then(|t| t.get(c.op.1 as usize)), Some(Op::Call { slot: 0, .. })) && !through_helper(c)
        }) || res.log.ops.iter().any(|r| {
            matches!(r.result, OpResult::Panicked(_))
                && matches!(scn.threads.get(r.thread as usize).and_then(|t| t.get(r.index as usize)), Some(Op::Own { slot: 0, .. }))
        });
        if via_original {
            stats.nontrivial = false;
            return Checked { violations, stats, harness_error: None };
        }
    }
    if !texts.is_empty() {
        *stats.probes.entry("mock_induced_panic_before_verification".into()).or_default() += 1;
        if texts.len() >= 2 {
            *stats.probes.entry("two_or_more_mock_induced_panics".into()).or_default() += 1;
        }
        let threads_with: std::collections::BTreeSet<u8> = induced.iter().map(|c| c.thread).collect();
        if threads_with.len() >= 2 {
            *stats.probes.entry("mock_induced_panics_on_two_or_more_threads".into()).or_default() += 1;
        }
        if induced.iter().any(|c| c.thread != 0) {
            *stats.probes.entry("mock_induced_panic_on_non_creator_thread".into()).or_default() += 1;
        }
        if res.log.thread_ends.iter().any(|(_, e)| matches!(e, OpResult::Panicked(_))) {
            *stats.probes.entry("mock_induced_panic_killed_a_thread".into()).or_default() += 1;
        }
        if res.sched.lock_contended > 0 {
            *stats.probes.entry("error_list_lock_contended".into()).or_default() += 1;
        }
        match &o.result {
            OpResult::Panicked(msg) => {
                for t in &texts {
                    if !msg.contains(t.as_str()) {
                        violations.push(v(
                            "C08",
                            "error-text-in-final-verification",
                            crate::props::classify_mock_panic(t),
                            format!("the mock panicked with {t:?} during a call, but the final verification message does not contain it: {msg:?}"),
                        ));
                        break;
                    }
                }
            }
            OpResult::ExitCode(false) => {}
            OpResult::Quiet | OpResult::ExitCode(true) => {
                violations.push(v(
                    "C08",
                    "mock-induced-panic-fails-verification",
                    crate::props::classify_mock_panic(&texts[0]),
                    format!("the mock panicked during calls with {texts:?}, yet {key} of the original succeeded"),
                ));
            }
            _ => {}
        }
    } else {
        // no mock-induced panic: user panics must not have been recorded, the verdict follows the counts
        if user_panics > 0 {
            *stats.probes.entry("only_user_panics_verdict_by_counts".into()).or_default() += 1;
        }
        // the state the verdict is about: after the calls that lent values made while they were released
        // (the snapshot of a call is taken right after its evaluation; a call that an answer function
        // makes is evaluated after its outer call: the last evaluation inside the operation is the call
        // with the highest id, whatever its nesting - only this thread is making calls by now)
        let last_inside = res.log.calls.iter().rev().find(|c| inside(c)).and_then(|c| c.post.clone());
        if let Some(pre) = last_inside.as_ref().or(o.pre.as_ref()) {
            if !pre.errors.is_empty() {
                violations.push(v(
                    "C08",
                    "user-panic-recorded",
                    "recorded",
                    format!("no mock-induced panic happened, but the mock has recorded errors {:?}", pre.errors),
                ));
            } else {
                let (p, m) = crate::oracle::unmet(&flat, pre);
                let expect_fail = !p.is_empty() || !m.is_empty();
                let failed = matches!(o.result, OpResult::Panicked(_) | OpResult::ExitCode(false));
                if expect_fail != failed {
                    violations.push(v(
                        "C08",
                        "user-panics-leave-verdict-to-counts",
                        key,
                        format!("only user-code panics happened; the counts {:?} say verification should {}, but it {}", pre.counts, if expect_fail { "fail" } else { "pass" }, if failed { "failed" } else { "passed" }),
                    ));
                }
            }
        }
    }
    Checked { violations, stats, harness_error: None }
}
