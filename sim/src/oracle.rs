//! Oracles of the coarse (serialised) world: C01, C02, C03, C04, C07. Each clause is a local check of
//! one transition (actual pre-state, call, outcome, actual post-state) and looks only at its own
//! aspect, so that a defect in one property's mechanism is not reported under another property.

use serde::{Deserialize, Serialize};

use crate::build::pat_name;
use crate::ctx::*;
use crate::model::*;
use crate::spec::*;
use crate::world::RunResult;

#[derive(Clone, Debug, Serialize, Deserialize, Default)]
pub struct Violation {
    pub prop: String,
    /// which oracle clause failed (minimisation keeps this fixed)
    pub clause: String,
    /// stable identification of *what* fails, used to match known findings
    pub key: String,
    pub detail: String,
}

pub fn v(prop: &str, clause: &str, key: impl Into<String>, detail: impl Into<String>) -> Violation {
    Violation {
        prop: prop.to_string(),
        clause: clause.to_string(),
        key: key.into(),
        detail: detail.into(),
    }
}

#[derive(Clone, Debug, PartialEq)]
pub enum Served {
    Ret { uid: u16, seg: usize },
    Default0,
    Prog { inv: u64, kind: ProgKind },
    MockPanic(String),
    UserPanic(UserFault),
    /// a value that is nothing the configuration could have produced
    Fabricated(u64),
    None,
}

pub fn served(log: &Log, c: &CallRec) -> Served {
    if let Some(inv) = c.prog {
        if let Some(p) = log.progs.iter().find(|p| p.inv == inv) {
            return Served::Prog { inv, kind: p.kind };
        }
    }
    match &c.outcome {
        Some(Outcome::Value(val)) => {
            let val = *val;
            if val == 0 {
                Served::Default0
            } else if val & VAL_KIND_MASK == VAL_RET {
                Served::Ret {
                    uid: ((val >> 8) & 0xffff) as u16,
                    seg: (val & 0xff) as usize,
                }
            } else {
                Served::Fabricated(val)
            }
        }
        Some(Outcome::MockPanic(s)) => Served::MockPanic(s.clone()),
        Some(Outcome::UserPanic(f)) => Served::UserPanic(*f),
        _ => Served::None,
    }
}

pub fn op_fault(scn: &Scenario, op: (u8, u16)) -> Option<Fault> {
    match scn.threads.get(op.0 as usize).and_then(|t| t.get(op.1 as usize)) {
        Some(Op::Call { fault, .. }) => *fault,
        Some(Op::Own { fault, .. }) => *fault,
        _ => None,
    }
}

/// On the current tree the generated method has no unmock arm for `&mut self` / `Pin` receivers
/// (known finding, see DESIGN.md section 5); the oracles still demand the real function.
pub fn unmock_runs(m: M) -> bool {
    m.info().has_unmock
}

fn has_seg(p: &FlatPattern, f: impl Fn(&Resp) -> bool) -> bool {
    p.spec.segs.iter().any(|s| f(&s.resp))
}

/// May pattern `p` legitimately answer its k-th match with a mock-induced panic?
fn can_mock_panic(p: &FlatPattern, k: u32) -> bool {
    p.spec.segs.is_empty()
        || has_seg(p, |r| matches!(r, Resp::Panics))
        || seg_single_use(p, 0)
        // whether unmocking / default-impl delegation then succeeds is C16's / C15's business
        || has_seg(p, |r| matches!(r, Resp::Unmocked | Resp::DefaultImpl))
        || {
            let e = expectation(p);
            !e.open_ended() && k > e.minimum
        }
}

fn attributable(s: &Served, p: &FlatPattern, k: u32) -> bool {
    match s {
        Served::Ret { uid, .. } => *uid == p.uid,
        Served::Default0 => has_seg(p, |r| matches!(r, Resp::ReturnsDefault)),
        Served::Prog { kind, .. } => match kind {
            ProgKind::Answer { uid, .. } => *uid == p.uid,
            ProgKind::Real(m) => *m == p.m && has_seg(p, |r| matches!(r, Resp::Unmocked)),
            ProgKind::DefaultBody(m) => *m == p.m && has_seg(p, |r| matches!(r, Resp::DefaultImpl)),
        },
        Served::MockPanic(_) => can_mock_panic(p, k),
        _ => false,
    }
}

fn count_of(s: &Snap, p: &FlatPattern) -> Option<u32> {
    s.counts_of(p.m).and_then(|c| c.get(p.index).copied())
}

/// post == pre with +1 at pattern p (or no change when p is None); ordered index compared separately
fn counts_step(pre: &Snap, post: &Snap, p: Option<&FlatPattern>) -> bool {
    if pre.counts.len() != post.counts.len() {
        return false;
    }
    for ((m0, c0), (m1, c1)) in pre.counts.iter().zip(&post.counts) {
        if m0 != m1 || c0.len() != c1.len() {
            return false;
        }
        for (i, (a, b)) in c0.iter().zip(c1).enumerate() {
            let inc = matches!(p, Some(p) if p.m == *m0 && p.index == i);
            if *b != *a + inc as u32 {
                return false;
            }
        }
    }
    true
}

fn describe(c: &CallRec) -> String {
    format!(
        "call#{} {:?}({},{}) thread {} op {:?} outcome {:?} pre {:?} post {:?}",
        c.id,
        c.m,
        c.x,
        c.y,
        c.thread,
        c.op,
        c.outcome,
        c.pre.as_ref().map(|s| (&s.counts, s.ordered)),
        c.post.as_ref().map(|s| (&s.counts, s.ordered))
    )
}

/// Is this call's evaluation cut short by an injected matcher panic?
fn matcher_fault_applies(scn: &Scenario, flat: &Flat, c: &CallRec, first_accept: Option<usize>) -> Option<u16> {
    // (both kinds of trap are judged by where they actually sit when the call is evaluated: the
    // generator's idea of "a matcher that will not be evaluated" is only a prediction)
    if let Some(Fault::MatcherPanic { uid }) | Some(Fault::MatcherMustNotRun { uid }) = op_fault(scn, c.op) {
        let fp = flat.patterns.get(uid as usize)?;
        // (matchers written with the real matching! macro contain no fault point)
        if fp.m == c.m && !fp.spec.macro_form {
            if flat.ordered(c.m) {
                // the only matcher an ordered call evaluates is the one of the pattern that owns its slot
                let owner = c.pre.as_ref().and_then(|pre| slot_owner(flat, pre.ordered));
                return match owner {
                    Some(o) if o.uid == uid => Some(uid),
                    _ => None,
                };
            }
            match first_accept {
                None => return Some(uid),
                Some(j) if fp.index <= j => return Some(uid),
                _ => {}
            }
        }
    }
    None
}

fn calls_of_mock<'a>(res: &'a RunResult, mock: u8) -> impl Iterator<Item = &'a CallRec> {
    res.log.calls.iter().filter(move |c| c.mock == mock)
}

// ---------------------------------------------------------------------------------------------

pub fn check_c01(scn: &Scenario, res: &RunResult) -> Vec<Violation> {
    let mut out = vec![];
    let flat = scn.config.flatten();
    for c in calls_of_mock(res, 0) {
        if !flat.mentioned(c.m) || flat.ordered(c.m) {
            continue;
        }
        let (Some(pre), Some(post)) = (&c.pre, &c.post) else { continue };
        let pats = flat.of_method(c.m);
        let jstar = pats.iter().find(|p| accepts(p, c.x, c.y)).copied();
        if let Some(uid) = matcher_fault_applies(scn, &flat, c, jstar.map(|p| p.index)) {
            let ok = matches!(c.outcome, Some(Outcome::UserPanic(UserFault::Matcher { uid: u })) if u == uid)
                && counts_step(pre, post, None);
            if !ok {
                out.push(v(
                    "C01",
                    "matcher-panic-not-counted",
                    format!("{:?}", c.m),
                    format!("a panicking matcher must end the call with that panic and count nothing: {}", describe(c)),
                ));
            }
            continue;
        }
        match jstar {
            None => {
                if !counts_step(pre, post, None) {
                    out.push(v(
                        "C01",
                        "rejecting-pattern-counted",
                        format!("{:?}", c.m),
                        format!("no pattern accepts the arguments, yet a match count changed: {}", describe(c)),
                    ));
                }
            }
            Some(p) => {
                let k = count_of(pre, p).unwrap_or(0) + 1;
                if !counts_step(pre, post, Some(p)) {
                    out.push(v(
                        "C01",
                        "count-first-match",
                        format!("{:?}", c.m),
                        format!(
                            "exactly the earliest accepting pattern {} (index {}) must be counted: {}",
                            pat_name(p.uid),
                            p.index,
                            describe(c)
                        ),
                    ));
                    continue;
                }
                let s = served(&res.log, c);
                if !attributable(&s, p, k) {
                    out.push(v(
                        "C01",
                        "answer-first-match",
                        format!("{:?}", c.m),
                        format!(
                            "answer {:?} is not a response of the earliest accepting pattern {} (index {}): {}",
                            s,
                            pat_name(p.uid),
                            p.index,
                            describe(c)
                        ),
                    ));
                }
            }
        }
    }
    out
}

/// Is `s` the response segment `i` of pattern `p` (k-th match)?
fn served_is_segment(s: &Served, p: &FlatPattern, i: usize, k: u32) -> Result<(), String> {
    let info = p.m.info();
    let seg = &p.spec.segs[i];
    let ok = match &seg.resp {
        Resp::Returns => {
            if seg_single_use(p, i) && k > 1 {
                matches!(s, Served::MockPanic(_))
            } else {
                *s == Served::Ret { uid: p.uid, seg: i }
            }
        }
        Resp::ReturnsDefault => *s == Served::Default0,
        Resp::Answers(_) | Resp::AnswersArc(_) => {
            matches!(s, Served::Prog { kind: ProgKind::Answer { uid, seg }, .. } if *uid == p.uid && *seg as usize == i)
        }
        Resp::Panics => {
            matches!(s, Served::MockPanic(msg) if msg.contains(&format!("explicit panic of {} seg {}", pat_name(p.uid), i)))
        }
        // the segment was selected if the real function / default body ran, or if the mock reported
        // that it cannot run it (whether it should have been able to is C16's / C15's business)
        Resp::Unmocked => {
            matches!(s, Served::Prog { kind: ProgKind::Real(m), .. } if *m == p.m)
                || matches!(s, Served::MockPanic(msg) if !msg.contains("explicit panic of (#P"))
        }
        Resp::DefaultImpl => {
            matches!(s, Served::Prog { kind: ProgKind::DefaultBody(m), .. } if *m == p.m)
                || (!info.has_default && matches!(s, Served::MockPanic(msg) if !msg.contains("explicit panic of (#P")))
        }
    };
    if ok {
        Ok(())
    } else {
        Err(format!("expected segment {i} ({:?} x {:?}) of {}, got {:?}", seg.resp, seg.quant, pat_name(p.uid), s))
    }
}

/// the pattern that answered a call, read off the response itself or (failing that) the counts
fn answering_pattern<'a>(flat: &'a Flat, s: &Served, c: &CallRec) -> Option<&'a FlatPattern> {
    match s {
        Served::Ret { uid, .. } => flat.patterns.get(*uid as usize),
        Served::Prog { kind: ProgKind::Answer { uid, .. }, .. } => flat.patterns.get(*uid as usize),
        _ => {
            let (pre, post) = (c.pre.as_ref()?, c.post.as_ref()?);
            let mut found = None;
            for p in flat.of_method(c.m) {
                let (a, b) = (count_of(pre, p)?, count_of(post, p)?);
                if b == a + 1 {
                    if found.is_some() {
                        return None;
                    }
                    found = Some(p);
                } else if b != a {
                    return None;
                }
            }
            found
        }
    }
}

pub fn check_c02(scn: &Scenario, res: &RunResult) -> Vec<Violation> {
    let mut out = vec![];
    let flat = scn.config.flatten();
    // "the k-th call matching that pattern": k is counted over the history (whole operations are
    // serialised in this world and a call is matched before its user program runs, so the order of
    // invocation is the order of matching), not read from the mock's own counter
    let mut matched_before: std::collections::BTreeMap<u16, u32> = Default::default();
    let mut history_reliable = true;
    let mut calls: Vec<&CallRec> = calls_of_mock(res, 0).collect();
    calls.sort_by_key(|c| c.invoke_step);
    for c in calls {
        if !flat.mentioned(c.m) {
            continue;
        }
        let Some(pre) = &c.pre else { continue };
        // (a matcher panic inside this call's own evaluation: no match; one that propagated out of a
        // nested call made by this call's user program does not undo this call's match)
        if matches!(c.outcome, Some(Outcome::UserPanic(UserFault::Matcher { .. }))) && c.prog.is_none() {
            continue;
        }
        // which pattern this call matches according to the configuration (whether the mock agrees is
        // C01's / C04's business): the position of the call is one more than the number of earlier
        // calls of this history that matched the same pattern - whatever became of them afterwards
        let matched = if flat.ordered(c.m) {
            match slot_owner(&flat, pre.ordered) {
                Some(q) if q.m == c.m && accepts(q, c.x, c.y) => Some(q),
                _ => {
                    history_reliable = false; // after a deviation the statement says nothing
                    None
                }
            }
        } else {
            flat.of_method(c.m).into_iter().find(|q| accepts(q, c.x, c.y))
        };
        if let Some(q) = matched {
            let seen = matched_before.entry(q.uid).or_default();
            let before = count_of(pre, q).unwrap_or(0);
            if history_reliable && *seen != before {
                out.push(v(
                    "C02",
                    "position-is-number-of-earlier-matches",
                    format!("{:?}", q.form),
                    format!("{} was matched by {} earlier call(s) of this history, but its match count before this call is {before}: {}", pat_name(q.uid), *seen, describe(c)),
                ));
                history_reliable = false;
            }
            *seen += 1;
        }
        let s = served(&res.log, c);
        let Some(p) = answering_pattern(&flat, &s, c) else { continue };
        if p.m != c.m {
            continue; // another property's business (C01/C18)
        }
        let Some(before) = count_of(pre, p) else { continue };
        let k = before + 1;
        let key = format!("{:?}/{:?}", p.form, p.spec.segs.iter().map(|s| s.quant).collect::<Vec<_>>());
        match assigned_segment(p, k) {
            Assigned::Seg(i) => {
                if let Err(e) = served_is_segment(&s, p, i, k) {
                    out.push(v(
                        "C02",
                        "kth-match-segment",
                        key,
                        format!("match #{k} of {}: {e}; chain {:?}; {}", pat_name(p.uid), p.spec.segs, describe(c)),
                    ));
                }
            }
            Assigned::Unconstrained => {
                if seg_single_use(p, 0) && p.spec.segs.len() == 1 && !matches!(s, Served::MockPanic(_)) {
                    out.push(v(
                        "C02",
                        "single-use-second-request-panics",
                        key.clone(),
                        format!("{} has a single-use response only; its match #{k} must panic instead of producing a value, got {:?}: {}", pat_name(p.uid), s, describe(c)),
                    ));
                } else if seg_single_use(p, 0) && s == (Served::Ret { uid: p.uid, seg: 0 }) {
                    out.push(v(
                        "C02",
                        "single-use-twice",
                        key,
                        format!("single-use value of {} produced again at match #{k}: {}", pat_name(p.uid), describe(c)),
                    ));
                }
            }
            Assigned::NoResponse => {
                if !matches!(s, Served::MockPanic(_)) {
                    out.push(v(
                        "C02",
                        "no-response-must-panic",
                        key,
                        format!("pattern without responses answered {:?}: {}", s, describe(c)),
                    ));
                }
            }
        }
    }
    // a single-use value is delivered at most once over the whole history
    let mut delivered: std::collections::BTreeMap<u16, u32> = Default::default();
    for c in calls_of_mock(res, 0) {
        if let Served::Ret { uid, seg: 0 } = served(&res.log, c) {
            if let Some(p) = flat.patterns.get(uid as usize) {
                if seg_single_use(p, 0) {
                    *delivered.entry(uid).or_default() += 1;
                }
            }
        }
    }
    for (uid, n) in delivered {
        if n > 1 {
            out.push(v(
                "C02",
                "single-use-twice",
                "history",
                format!("single-use value of {} was delivered {n} times", pat_name(uid)),
            ));
        }
    }
    out
}

pub fn check_c04(scn: &Scenario, res: &RunResult) -> Vec<Violation> {
    let mut out = vec![];
    let flat = scn.config.flatten();
    let mut calls: Vec<&CallRec> = calls_of_mock(res, 0).collect();
    calls.sort_by_key(|c| c.invoke_step);
    let mut deviated = false;
    let mut ordered_calls = 0u32;
    for c in calls {
        let (Some(pre), Some(post)) = (&c.pre, &c.post) else { continue };
        let is_ordered = flat.mentioned(c.m) && flat.ordered(c.m);
        if !is_ordered {
            if post.ordered != pre.ordered {
                out.push(v(
                    "C04",
                    "unordered-call-moves-index",
                    format!("{:?}", c.m),
                    format!("a call to a method without ordered patterns changed the ordered sequence position: {}", describe(c)),
                ));
            }
            continue;
        }
        let s = served(&res.log, c);
        if deviated {
            // the statement is silent after the first deviation, except that no response of another
            // method may appear
            let uid = match &s {
                Served::Ret { uid, .. } => Some(*uid),
                Served::Prog { kind: ProgKind::Answer { uid, .. }, .. } => Some(*uid),
                _ => None,
            };
            if let Some(uid) = uid {
                if flat.patterns.get(uid as usize).map(|p| p.m) != Some(c.m) {
                    out.push(v(
                        "C04",
                        "foreign-response",
                        format!("{:?}", c.m),
                        format!("response of another method's pattern {}: {}", pat_name(uid), describe(c)),
                    ));
                }
            }
            ordered_calls += 1;
            continue;
        }
        let i = pre.ordered;
        if i != ordered_calls {
            out.push(v(
                "C04",
                "position-is-number-of-ordered-calls",
                format!("{:?}", c.m),
                format!("before any deviation the sequence position must equal the number of ordered calls made ({ordered_calls}), found {i}: {}", describe(c)),
            ));
            deviated = true;
            ordered_calls += 1;
            continue;
        }
        ordered_calls += 1;
        let owner = slot_owner(&flat, i);
        let fits = matches!(owner, Some(p) if p.m == c.m && accepts(p, c.x, c.y));
        if let (true, Some(p)) = (fits, owner) {
            if matcher_fault_applies(scn, &flat, c, None) == Some(p.uid) {
                // a user panic inside the slot's matcher: this was still the i-th call made to an
                // ordered method - it used up its place in the sequence and matched nothing; the
                // calls after it are judged as before
                if !(counts_step(pre, post, None) && post.ordered == i + 1) {
                    out.push(v(
                        "C04",
                        "panicking-matcher-uses-its-slot",
                        format!("{:?}", c.m),
                        format!("the matcher of slot {i} panicked (user code): nothing may be counted and the position must advance by one: {}", describe(c)),
                    ));
                    deviated = true;
                }
                continue;
            }
            let k = count_of(pre, p).unwrap_or(0) + 1;
            if !(counts_step(pre, post, Some(p)) && post.ordered == i + 1) {
                out.push(v(
                    "C04",
                    "slot-accept-counts",
                    format!("{:?}", c.m),
                    format!("call fits slot {i} owned by {}: that pattern and the position must advance by one, nothing else: {}", pat_name(p.uid), describe(c)),
                ));
                deviated = true;
                continue;
            }
            let seg_ok = match assigned_segment(p, k) {
                Assigned::Seg(i) => served_is_segment(&s, p, i, k).is_ok(),
                _ => true,
            };
            if !attributable(&s, p, k) || !seg_ok {
                out.push(v(
                    "C04",
                    "slot-response",
                    format!("{:?}", c.m),
                    format!("call fits slot {i} owned by {} (its match #{k}) but was answered {:?}, which is not that slot's response: {}", pat_name(p.uid), s, describe(c)),
                ));
            }
        } else {
            if matcher_fault_applies(scn, &flat, c, None).is_some()
                && matches!(c.outcome, Some(Outcome::UserPanic(_)))
            {
                deviated = true;
                continue;
            }
            deviated = true;
            let panicked = matches!(s, Served::MockPanic(_));
            if !panicked || !counts_step(pre, post, None) {
                out.push(v(
                    "C04",
                    "first-deviation-panics",
                    format!("{:?}", c.m),
                    format!(
                        "first deviating ordered call (slot {i} is owned by {:?}) must panic and count no pattern: answered {:?}: {}",
                        owner.map(|p| (p.m, pat_name(p.uid))),
                        s,
                        describe(c)
                    ),
                ));
            }
        }
    }
    out
}

pub fn check_c07(scn: &Scenario, res: &RunResult) -> Vec<Violation> {
    let mut out = vec![];
    let cfg = &scn.config;
    let flat = cfg.flatten();
    for c in calls_of_mock(res, 0) {
        let (Some(pre), Some(post)) = (&c.pre, &c.post) else { continue };
        let s = served(&res.log, c);
        // never fabricates
        let fabricated = match &s {
            Served::Fabricated(_) => true,
            Served::Ret { uid, .. } => flat.patterns.get(*uid as usize).map(|p| p.m) != Some(c.m),
            Served::Default0 => !flat.of_method(c.m).iter().any(|p| has_seg(p, |r| matches!(r, Resp::ReturnsDefault))),
            _ => false,
        };
        if fabricated {
            out.push(v(
                "C07",
                "fabricated-value",
                format!("{:?}", c.m),
                format!("returned a value that is no configured response of the method: {}", describe(c)),
            ));
            continue;
        }
        let route = if !flat.mentioned(c.m) {
            route_unmentioned(cfg, c.m)
        } else if !flat.ordered(c.m) {
            let first = flat.of_method(c.m).into_iter().position(|p| accepts(p, c.x, c.y));
            // a pattern whose matcher registered no function can neither accept nor reject: when the
            // search reaches it (no earlier pattern accepts) the call has no applicable pattern and
            // must fail loudly; it is never handed to real code or to a later pattern
            let broken = flat.of_method(c.m).into_iter().position(|p| !p.spec.has_matcher);
            let unevaluable = matches!(broken, Some(b) if first.map_or(true, |f| b < f));
            if unevaluable {
                if matcher_fault_applies(scn, &flat, c, broken).is_some() {
                    continue;
                }
                Route::MockPanic
            } else {
                if first.is_some() || matcher_fault_applies(scn, &flat, c, first).is_some() {
                    continue;
                }
                route_unmatched(cfg, c.m)
            }
        } else {
            continue;
        };
        let key = format!("{:?}:{:?}:{}", route, c.m, if cfg.partial { "partial" } else { "strict" });
        if !counts_step(pre, post, None) || pre.ordered != post.ordered {
            out.push(v(
                "C07",
                "unanswered-call-counts-nothing",
                key.clone(),
                format!("a call no pattern answers changed a match count or the sequence position: {}", describe(c)),
            ));
        }
        let path = c.m.path();
        match route {
            Route::DefaultBody | Route::RealFn => {
                let want = if route == Route::DefaultBody {
                    ProgKind::DefaultBody(c.m)
                } else {
                    ProgKind::Real(c.m)
                };
                let runs: Vec<&ProgRec> = res
                    .log
                    .progs
                    .iter()
                    .filter(|p| p.call == Some(c.id) && p.kind == want)
                    .collect();
                let args_ok = runs.iter().all(|p| p.x == c.x && (!c.m.info().two_args || p.y == c.y));
                let first_is_it = matches!(&s, Served::Prog { kind, .. } if *kind == want);
                if runs.len() != 1 || !args_ok || !first_is_it {
                    out.push(v(
                        "C07",
                        "falls-through-to-real-code",
                        key.clone(),
                        format!(
                            "expected {:?} to run exactly once with the caller's arguments; it ran {} time(s), answered {:?}: {}",
                            want,
                            runs.len(),
                            s,
                            describe(c)
                        ),
                    ));
                    continue;
                }
                if runs[0].finished {
                    if c.outcome != Some(Outcome::Value(VAL_PROG | runs[0].inv)) {
                        out.push(v(
                            "C07",
                            "result-returned-unchanged",
                            key,
                            format!("the real code's result was not what the caller got: {}", describe(c)),
                        ));
                    }
                }
            }
            Route::MockPanic | Route::MissingRealFn => {
                let ok = matches!(&s, Served::MockPanic(msg) if msg.contains(&path));
                if !ok {
                    out.push(v(
                        "C07",
                        "fails-loudly-naming-the-call",
                        key,
                        format!("expected a mock panic naming {path}, got {:?}: {}", s, describe(c)),
                    ));
                }
            }
        }
    }
    out
}

pub fn final_ops<'a>(scn: &'a Scenario, res: &'a RunResult) -> Vec<(&'a OpRec, &'a Op)> {
    res.log
        .ops
        .iter()
        .filter_map(|o| {
            let op = scn.threads.get(o.thread as usize)?.get(o.index as usize)?;
            match op {
                Op::Drop { .. } | Op::Verify { .. } | Op::Report { .. } if o.original == Some(true) => Some((o, op)),
                _ => None,
            }
        })
        .collect()
}

/// The expectations the *actual* counts violate: (uids of violated patterns, never-matched methods)
pub fn unmet(flat: &Flat, snap: &Snap) -> (Vec<u16>, Vec<M>) {
    let mut pats = vec![];
    let mut methods = vec![];
    for p in &flat.patterns {
        let count = count_of(snap, p).unwrap_or(0);
        if expectation(p).violated_by(count) {
            pats.push(p.uid);
        }
    }
    // every mentioned method appears in the snapshot (also those configured through `specials`)
    for (m, counts) in &snap.counts {
        if counts.iter().sum::<u32>() == 0 {
            methods.push(*m);
        }
    }
    (pats, methods)
}

/// Compare a verification message with the expectations that the actual counts violate: one line
/// naming every violated pattern, one line naming every never-matched method (and no pattern), no
/// other lines. Only names are looked at, not the wording.
pub fn check_verdict_text(flat: &Flat, snap: &Snap, msg: &str) -> Result<(), String> {
    let (pats, methods) = unmet(flat, snap);
    let mentioned: Vec<M> = snap.counts.iter().map(|(m, _)| *m).collect();
    let mut pat_lines: std::collections::BTreeMap<u16, u32> = Default::default();
    // several mocked methods can share one `Trait::method` path (generic instantiations): lines that
    // name a method are counted per path
    let mut path_lines: std::collections::BTreeMap<String, u32> = Default::default();
    for line in msg.split('\n') {
        if let Some(p) = flat.patterns.iter().find(|p| line.contains(pat_name(p.uid))) {
            *pat_lines.entry(p.uid).or_default() += 1;
        } else if let Some(m) = mentioned.iter().find(|m| line.contains(&m.path())) {
            *path_lines.entry(m.path()).or_default() += 1;
        } else {
            return Err(format!("line {line:?} names no expectation"));
        }
    }
    for uid in &pats {
        if pat_lines.get(uid).copied().unwrap_or(0) != 1 {
            return Err(format!("violated pattern {} is named by {} lines (want exactly 1)", pat_name(*uid), pat_lines.get(uid).copied().unwrap_or(0)));
        }
    }
    for (uid, _) in &pat_lines {
        if !pats.contains(uid) {
            return Err(format!("a line names pattern {}, whose expectation is met", pat_name(*uid)));
        }
    }
    let mut want: std::collections::BTreeMap<String, u32> = Default::default();
    for m in &methods {
        *want.entry(m.path()).or_default() += 1;
    }
    for (path, n) in &want {
        if path_lines.get(path).copied().unwrap_or(0) != *n {
            return Err(format!("{n} never-matched method(s) named {path} but {} line(s) name it (without naming a pattern)", path_lines.get(path).copied().unwrap_or(0)));
        }
    }
    for (path, n) in &path_lines {
        if !want.contains_key(path) {
            return Err(format!("{n} line(s) name method {path} (and no pattern), but every method of that name was matched"));
        }
    }
    Ok(())
}

pub fn check_c03(scn: &Scenario, res: &RunResult) -> Vec<Violation> {
    let mut out = vec![];
    let flat = scn.config.flatten();
    // only histories without mock-induced panics
    if res.log.calls.iter().any(|c| matches!(c.outcome, Some(Outcome::MockPanic(_)))) {
        return out;
    }
    for (o, op) in final_ops(scn, res) {
        let Some(pre) = &o.pre else { continue };
        if !pre.errors.is_empty() {
            continue;
        }
        if !ordinary_verdict_expected(scn, &res.log, o) {
            continue; // a clone is (possibly) alive or this is not the creator thread: C09's business
        }
        let (pats, methods) = unmet(&flat, pre);
        let expect_fail = !pats.is_empty() || !methods.is_empty();
        let key = format!("{}", match op { Op::Drop { .. } => "drop", Op::Verify { .. } => "verify", _ => "report" });
        match &o.result {
            OpResult::Quiet | OpResult::ExitCode(true) => {
                if expect_fail {
                    out.push(v(
                        "C03",
                        "unmet-expectation-not-reported",
                        key,
                        format!(
                            "verification was silent although the counts {:?} violate {:?} / never-matched {:?}",
                            pre.counts,
                            pats.iter().map(|u| (pat_name(*u), expectation(&flat.patterns[*u as usize]))).collect::<Vec<_>>(),
                            methods
                        ),
                    ));
                }
            }
            OpResult::ExitCode(false) => {
                if !expect_fail {
                    out.push(v("C03", "spurious-failure", key, format!("report() returned FAILURE although every expectation is met by the counts {:?}", pre.counts)));
                }
            }
            OpResult::Panicked(msg) => {
                if !expect_fail {
                    out.push(v("C03", "spurious-failure", key, format!("verification failed with {msg:?} although every expectation is met by the counts {:?}", pre.counts)));
                } else if let Err(e) = check_verdict_text(&flat, pre, msg) {
                    out.push(v("C03", "one-line-per-unmet-expectation", key, format!("{e}; message {msg:?}; counts {:?}", pre.counts)));
                }
            }
            _ => {}
        }
    }
    out
}

/// Clone population relative to the window of operation `target` (an index into `log.ops`),
/// resolved by replaying the recorded slot events: (some clone was definitely alive throughout,
/// every clone was definitely gone before it started). Text-independent replacement for looking at
/// what a lifecycle panic says.
pub fn clone_population(scn: &Scenario, log: &Log, target: usize) -> (bool, bool) {
    struct Inst {
        created_start: u64,
        created_end: u64,
        gone: Option<(u64, u64)>,
    }
    enum SlotEv {
        Put { slot: u8, inst: usize },
        Take { slot: u8, op: usize },
    }
    let op_of = |o: &OpRec| scn.threads.get(o.thread as usize).and_then(|t| t.get(o.index as usize)).cloned();
    let mut insts: Vec<Inst> = vec![Inst { created_start: 0, created_end: 0, gone: None }];
    let mut events: Vec<(u64, u8, SlotEv)> = vec![];
    for (i, o) in log.ops.iter().enumerate() {
        if matches!(o.result, OpResult::Skipped(_)) {
            continue;
        }
        match op_of(o) {
            Some(Op::Clone { dst, .. }) | Some(Op::CloneInside { dst, .. }) if matches!(o.result, OpResult::Done) => {
                insts.push(Inst { created_start: o.start_step, created_end: o.end_step, gone: None });
                events.push((o.end_step, 0, SlotEv::Put { slot: dst, inst: insts.len() - 1 }));
            }
            Some(Op::Drop { slot }) | Some(Op::Verify { slot }) | Some(Op::Report { slot }) | Some(Op::Hold { slot }) | Some(Op::UnwindDrop { slot }) => {
                events.push((o.start_step, 1, SlotEv::Take { slot, op: i }));
            }
            Some(Op::NoVerifyInDrop { slot }) if !matches!(o.result, OpResult::Done) => {
                events.push((o.start_step, 1, SlotEv::Take { slot, op: i }));
            }
            Some(Op::Call { slot, m, keep, .. }) if matches!(m.info().recv, Recv::Val) || (matches!(m.info().recv, Recv::Rc | Recv::Arc) && !keep) => {
                events.push((o.start_step, 1, SlotEv::Take { slot, op: i }));
            }
            _ => {}
        }
    }
    events.sort_by_key(|e| (e.0, e.1));
    let mut slot_map: std::collections::BTreeMap<u8, usize> = Default::default();
    slot_map.insert(0, 0);
    let mut held: Vec<(usize, u8)> = vec![]; // (instance, thread) moved onto a thread's stack
    for (_, _, e) in &events {
        match e {
            SlotEv::Put { slot, inst } => {
                slot_map.insert(*slot, *inst);
            }
            SlotEv::Take { slot, op } => {
                if let Some(inst) = slot_map.remove(slot) {
                    let o = &log.ops[*op];
                    if matches!(op_of(o), Some(Op::Hold { .. })) {
                        held.push((inst, o.thread));
                    } else {
                        insts[inst].gone = Some((o.start_step, o.end_step));
                    }
                }
            }
        }
    }
    // instances held on a thread's stack go when that thread ends (its recorded end-of-thread drops
    // have indexes beyond its operation list) or dies
    for (inst, thread) in held {
        let n = scn.threads.get(thread as usize).map(|t| t.len()).unwrap_or(0);
        let ends: Vec<&OpRec> = log.ops.iter().filter(|o| o.thread == thread && o.index as usize >= n).collect();
        let last_step = log.ops.iter().filter(|o| o.thread == thread).map(|o| o.end_step).max().unwrap_or(0);
        insts[inst].gone = match ends.first() {
            Some(o) => Some((o.start_step, ends.last().map(|e| e.end_step).unwrap_or(o.end_step))),
            // the thread died: its stack was unwound right after its last recorded operation
            None => Some((last_step, last_step + 1)),
        };
    }
    let t = &log.ops[target];
    let (vs, ve) = (t.start_step, t.end_step);
    let mut any_def_alive = false;
    let mut all_def_dead = true;
    for c in insts.iter().skip(1) {
        let def_dead = c.created_start > ve || matches!(c.gone, Some((_, ge)) if ge < vs);
        let def_alive = c.created_end < vs && !matches!(c.gone, Some((gs, _)) if gs <= ve);
        any_def_alive |= def_alive;
        all_def_dead &= def_dead;
    }
    (any_def_alive, all_def_dead)
}

/// Is the lifecycle precondition of an ordinary verdict met for this operation on the original:
/// verified on the creator thread with every clone gone?
pub fn ordinary_verdict_expected(scn: &Scenario, log: &Log, o: &OpRec) -> bool {
    let idx = log.ops.iter().position(|x| std::ptr::eq(x, o)).unwrap_or(0);
    let (_, all_dead) = clone_population(scn, log, idx);
    all_dead && o.thread == 0
}
