//! Properties whose worlds do not fit the standard worker pipeline (crash world, I/O script world)
//! hook in here.

use crate::driver::ReplayFile;

pub fn run_special(_prop: &str, _tier: &str, _seed: u64, _workers: u64) -> Option<i32> {
    None
}

pub fn replay_special(_rf: &ReplayFile) -> Option<i32> {
    None
}
