//! Per-run context: the recorded history (calls, user-program invocations, lifecycle operations),
//! thread-local bookkeeping of the simulated threads, and the two primitives all user code of
//! the corpus is written in: `do_call` (a recorded call into the mock) and `run_prog` (a user
//! program: answer function, real function or default body).

use std::cell::RefCell;
use std::panic::{catch_unwind, resume_unwind, AssertUnwindSafe};
use std::sync::atomic::{AtomicU64, Ordering};
use std::sync::{Arc, Mutex};

use serde::{Deserialize, Serialize};

use crate::sched::Sched;
use crate::spec::*;

pub const VAL_RET: u64 = 1 << 56;
pub const VAL_PROG: u64 = 2 << 56;
pub const VAL_TRACKED: u64 = 3 << 56;
pub const VAL_KIND_MASK: u64 = 0xff << 56;

pub fn ret_token(uid: u16, seg: usize) -> u64 {
    VAL_RET | ((uid as u64) << 8) | seg as u64
}

/// Panic payload of injected user-code faults (anything else is a mock-induced or Rust panic).
#[derive(Clone, Copy, Debug, Serialize, Deserialize, PartialEq, Eq, Hash)]
pub enum UserFault {
    Matcher { uid: u16 },
    Prog { inv: u64 },
    Clone,
    Debug,
    Body,
}

#[derive(Clone, Debug, Serialize, Deserialize, PartialEq, Eq, Hash)]
pub enum Outcome {
    Value(u64),
    MockPanic(String),
    UserPanic(UserFault),
    /// the operation could not be carried out (slot empty / instance not unique)
    Skipped,
    /// future dropped before completion (executor world)
    Cancelled,
}

impl Outcome {
    pub fn is_mock_panic(&self) -> bool {
        matches!(self, Outcome::MockPanic(_))
    }
    pub fn is_panic(&self) -> bool {
        matches!(self, Outcome::MockPanic(_) | Outcome::UserPanic(_))
    }
}

pub fn classify_panic(payload: &(dyn std::any::Any + Send)) -> Outcome {
    if let Some(f) = payload.downcast_ref::<UserFault>() {
        Outcome::UserPanic(*f)
    } else if let Some(s) = payload.downcast_ref::<String>() {
        Outcome::MockPanic(s.clone())
    } else if let Some(s) = payload.downcast_ref::<&'static str>() {
        Outcome::MockPanic((*s).to_string())
    } else {
        Outcome::MockPanic("<non-string panic payload>".to_string())
    }
}

#[derive(Clone, Debug, Serialize, Deserialize, PartialEq, Eq, Hash, Default)]
pub struct Snap {
    pub ordered: u32,
    /// per mentioned method (sorted by M): match count of every pattern in declaration order
    pub counts: Vec<(M, Vec<u32>)>,
    pub errors: Vec<String>,
    pub strong: u32,
}

impl Snap {
    pub fn counts_of(&self, m: M) -> Option<&Vec<u32>> {
        self.counts.iter().find(|(mm, _)| *mm == m).map(|(_, c)| c)
    }
    pub fn same_counts(&self, other: &Snap) -> bool {
        self.ordered == other.ordered && self.counts == other.counts
    }
}

pub fn take_snap(u: &unimock::Unimock) -> Snap {
    let s = unimock::verif::snapshot(u);
    let mut counts: Vec<(M, Vec<u32>)> = s
        .methods
        .iter()
        .map(|ms| {
            (
                crate::corpus::m_of_type_id(ms.type_id, ms.trait_ident, ms.method_ident),
                ms.counts.iter().map(|c| *c as u32).collect(),
            )
        })
        .collect();
    counts.sort_by_key(|(m, _)| *m);
    Snap {
        ordered: s.ordered_index as u32,
        counts,
        errors: s.errors,
        strong: s.strong_count as u32,
    }
}

#[derive(Clone, Copy, Debug, Serialize, Deserialize, PartialEq, Eq, Hash)]
pub enum ProgKind {
    Answer { uid: u16, seg: u8 },
    Real(M),
    DefaultBody(M),
}

#[derive(Clone, Debug, Serialize, Deserialize)]
pub struct CallRec {
    pub id: u32,
    pub parent: Option<u32>,
    /// the program invocation that made this nested call
    pub parent_inv: Option<u64>,
    pub thread: u8,
    /// (thread, op index) of the top-level operation this call belongs to
    pub op: (u8, u16),
    pub mock: u8,
    pub m: M,
    pub x: u8,
    pub y: u8,
    pub pre: Option<Snap>,
    /// state at the first point after the evaluation: entry of the user program the evaluation
    /// continued into, or return
    pub post: Option<Snap>,
    /// program the evaluation of this call continued into (first one)
    pub prog: Option<u64>,
    pub invoke_step: u64,
    pub return_step: u64,
    pub outcome: Option<Outcome>,
}

#[derive(Clone, Debug, Serialize, Deserialize)]
pub struct ProgRec {
    pub inv: u64,
    pub kind: ProgKind,
    pub call: Option<u32>,
    pub thread: u8,
    pub mock: u8,
    pub x: u8,
    pub y: u8,
    pub nested: Vec<u32>,
    pub finished: bool,
    pub step: u64,
}

#[derive(Clone, Debug, Serialize, Deserialize, PartialEq, Eq, Hash)]
pub enum OpResult {
    Done,
    Skipped(String),
    Call(u32),
    /// verify / drop / report results
    Quiet,
    Panicked(String),
    UserPanicked(UserFault),
    ExitCode(bool),
    Value(u64),
    Info(String),
}

#[derive(Clone, Debug, Serialize, Deserialize)]
pub struct OpRec {
    pub thread: u8,
    pub index: u16,
    pub start_step: u64,
    pub end_step: u64,
    pub result: OpResult,
    /// which mock instance kind the op touched: Some(true) = original
    pub original: Option<bool>,
    pub pre: Option<Snap>,
}

#[derive(Clone, Debug, Serialize, Deserialize)]
pub enum Event {
    Matcher { step: u64, thread: u8, uid: u16, accepted: bool },
    Note { step: u64, thread: u8, what: String },
}

#[derive(Default, Clone, Debug, Serialize, Deserialize)]
pub struct Log {
    pub calls: Vec<CallRec>,
    pub progs: Vec<ProgRec>,
    pub ops: Vec<OpRec>,
    pub events: Vec<Event>,
    /// (thread, how it ended)
    pub thread_ends: Vec<(u8, OpResult)>,
    /// construction / clone / drop events of instrumented values
    #[serde(default)]
    pub track: Vec<crate::values::TrackEv>,
    #[serde(default)]
    pub lend: Vec<LendEv>,
    #[serde(default)]
    pub tasks: Vec<TaskRec>,
    /// zero-sized lent values constructed / dropped during this run
    #[serde(default)]
    pub zst: (u32, u32),
}

/// one future of the executor world
#[derive(Clone, Debug, Serialize, Deserialize)]
pub struct TaskRec {
    pub op: (u8, u16),
    pub index: u8,
    pub m: M,
    pub x: u8,
    pub polls: u32,
    /// position in first-poll order
    pub first_poll: Option<u32>,
    pub call: Option<u32>,
    pub result: Option<Outcome>,
    pub cancelled: bool,
    /// state right after the future was created (before any poll)
    pub after_create: Option<Snap>,
    pub before_create: Option<Snap>,
}

#[derive(Clone, Debug, Serialize, Deserialize)]
pub enum LendWhat {
    Taken { val: u32, kind: LendKind, addr: u64 },
    /// something read through a held reference was not what was lent
    Bad { val: u32, what: String },
    MakeMutStart { val: u32 },
    MakeMutEnd { val: u32 },
    SessionStart { exclusive: bool },
    SessionEnd { held: u32 },
    Checked { n: u32 },
}

#[derive(Clone, Debug, Serialize, Deserialize)]
pub struct LendEv {
    pub step: u64,
    pub thread: u8,
    pub slot: u8,
    pub what: LendWhat,
}

pub struct RunCtx {
    pub sched: Sched,
    pub log: Mutex<Log>,
    pub cfgs: Vec<Config>,
    pub flats: Vec<Flat>,
    pub step: AtomicU64,
    pub inv: AtomicU64,
    pub record_matchers: bool,
    pub slots: Vec<Mutex<Option<Arc<unimock::Unimock>>>>,
    pub slot_mock: Vec<AtomicU64>,
    pub tracker: Arc<crate::values::Tracker>,
    /// number of top-level Call operations completed so far
    pub seq: AtomicU64,
    /// user programs nested deeper than this make no further calls (knob `max_depth`)
    pub max_depth: usize,
}

impl RunCtx {
    pub fn tick(&self) -> u64 {
        self.step.fetch_add(1, Ordering::SeqCst)
    }
    pub fn log<R>(&self, f: impl FnOnce(&mut Log) -> R) -> R {
        let mut g = self.log.lock().unwrap_or_else(|p| p.into_inner());
        f(&mut g)
    }
}

pub struct ThreadCtx {
    pub run: Arc<RunCtx>,
    pub tid: u8,
    pub call_stack: Vec<u32>,
    pub prog_stack: Vec<u64>,
    pub cur_op: (u8, u16),
    pub cur_fault: Option<Fault>,
    pub progs_in_op: u8,
    pub cur_mock: u8,
    /// id for the next tracked value created by user code on this thread
    pub cur_val: u32,
}

thread_local! {
    pub static TL: RefCell<Option<ThreadCtx>> = const { RefCell::new(None) };
}

pub fn with_tl<R>(f: impl FnOnce(&mut ThreadCtx) -> R) -> R {
    TL.with(|tl| {
        let mut b = tl.borrow_mut();
        f(b.as_mut().expect("not on a simulated thread"))
    })
}

pub fn try_with_tl<R>(f: impl FnOnce(&mut ThreadCtx) -> R) -> Option<R> {
    TL.with(|tl| match tl.try_borrow_mut() {
        Ok(mut b) => b.as_mut().map(f),
        Err(_) => None,
    })
}

pub const MAX_DEPTH: usize = 4;

/// Requests user code makes to whatever it was given as "the mock" (`&Unimock`, `&mut Unimock`,
/// the delegation helper inside a default body, ...).
pub enum PortReq {
    Snap,
    Call(M, u8, u8),
}

pub enum PortResp {
    Snap(Option<Snap>),
    Val(u64),
}

pub type Port<'a> = &'a mut dyn FnMut(PortReq) -> PortResp;

fn port_snap(port: Port) -> Option<Snap> {
    match port(PortReq::Snap) {
        PortResp::Snap(s) => s,
        _ => None,
    }
}

/// A recorded call into the mock. Panics propagate (after being recorded).
pub fn do_call(m: M, x: u8, y: u8, port: Port) -> u64 {
    let (x, y) = if m == M::Z0 { (0, 0) } else { (x, y) };
    let (run, id) = with_tl(|t| {
        let run = t.run.clone();
        let step = run.tick();
        let parent = t.call_stack.last().copied();
        let parent_inv = t.prog_stack.last().copied();
        let (tid, op, mock) = (t.tid, t.cur_op, t.cur_mock);
        let id = run.log(|l| {
            let id = l.calls.len() as u32;
            l.calls.push(CallRec {
                id,
                parent,
                parent_inv,
                thread: tid,
                op,
                mock,
                m,
                x,
                y,
                pre: None,
                post: None,
                prog: None,
                invoke_step: step,
                return_step: 0,
                outcome: None,
            });
            if let Some(inv) = parent_inv {
                if let Some(p) = l.progs.iter_mut().rev().find(|p| p.inv == inv) {
                    p.nested.push(id);
                }
            }
            id
        });
        t.call_stack.push(id);
        (run, id)
    });
    let pre = port_snap(port);
    run.log(|l| l.calls[id as usize].pre = pre);

    let result = catch_unwind(AssertUnwindSafe(|| match port(PortReq::Call(m, x, y)) {
        PortResp::Val(v) => v,
        _ => unreachable!(),
    }));

    with_tl(|t| {
        t.call_stack.pop();
    });
    let post = port_snap(port);
    let step = run.tick();
    let outcome = match &result {
        Ok(v) => Outcome::Value(*v),
        Err(p) => classify_panic(p.as_ref()),
    };
    run.log(|l| {
        let c = &mut l.calls[id as usize];
        if c.post.is_none() {
            c.post = post;
        }
        c.return_step = step;
        c.outcome = Some(outcome);
    });
    match result {
        Ok(v) => v,
        Err(p) => resume_unwind(p),
    }
}

/// A user program (answer function, real function, default body).
pub fn run_prog(kind: ProgKind, x: u8, y: u8, port: Port) -> u64 {
    crate::sched::user_yield();
    let (run, inv, prog, fault_pos, depth) = with_tl(|t| {
        let run = t.run.clone();
        let inv = run.inv.fetch_add(1, Ordering::SeqCst);
        let step = run.tick();
        let call = t.call_stack.last().copied();
        let mock = t.cur_mock;
        let cfg = &run.cfgs[mock as usize];
        let prog = match kind {
            ProgKind::Answer { uid, seg } => {
                match &run.flats[mock as usize].patterns[uid as usize].spec.segs[seg as usize].resp
                {
                    Resp::Answers(p) | Resp::AnswersArc(p) => p.clone(),
                    _ => Prog::default(),
                }
            }
            ProgKind::Real(m) => cfg.real_prog(m),
            ProgKind::DefaultBody(m) => cfg.default_prog(m),
        };
        let nth = t.progs_in_op;
        t.progs_in_op = t.progs_in_op.saturating_add(1);
        let fault_pos = match t.cur_fault {
            Some(Fault::ProgPanic { nth: n, pos }) if n == nth => Some(pos as usize),
            _ => None,
        };
        let tid = t.tid;
        run.log(|l| {
            l.progs.push(ProgRec {
                inv,
                kind,
                call,
                thread: tid,
                mock,
                x,
                y,
                nested: vec![],
                finished: false,
                step,
            });
        });
        t.prog_stack.push(inv);
        (run, inv, prog, fault_pos, t.prog_stack.len())
    });
    // the state right after the evaluation that led here
    let snap = port_snap(port);
    run.log(|l| {
        if let Some(p) = l.progs.iter().rev().find(|p| p.inv == inv) {
            if let Some(cid) = p.call {
                let c = &mut l.calls[cid as usize];
                if c.prog.is_none() {
                    c.prog = Some(inv);
                    if c.post.is_none() {
                        c.post = snap;
                    }
                }
            }
        }
    });

    struct PopGuard;
    impl Drop for PopGuard {
        fn drop(&mut self) {
            let _ = try_with_tl(|t| {
                t.prog_stack.pop();
            });
        }
    }
    let _guard = PopGuard;

    let calls: &[(M, u8, u8)] = if depth > run.max_depth { &[] } else { &prog.calls };
    for (i, (m, dx, dy)) in calls.iter().enumerate() {
        if fault_pos == Some(i) {
            std::panic::panic_any(UserFault::Prog { inv });
        }
        do_call(*m, (x.wrapping_add(*dx)) & 3, *dy & 3, port);
    }
    if let Some(pos) = fault_pos {
        if pos >= calls.len() {
            std::panic::panic_any(UserFault::Prog { inv });
        }
    }
    run.log(|l| {
        if let Some(p) = l.progs.iter_mut().rev().find(|p| p.inv == inv) {
            p.finished = true;
        }
    });
    VAL_PROG | inv
}

/// Matcher body shared by all patterns.
pub fn matcher_body(uid: u16, pred: u32, idx: u32) -> bool {
    crate::sched::user_yield();
    let accepted = (pred >> idx) & 1 == 1;
    let fault = try_with_tl(|t| {
        if t.run.record_matchers {
            let step = t.run.tick();
            let tid = t.tid;
            t.run.log(|l| {
                l.events.push(Event::Matcher {
                    step,
                    thread: tid,
                    uid,
                    accepted,
                })
            });
        }
        matches!(t.cur_fault, Some(Fault::MatcherPanic { uid: u }) | Some(Fault::MatcherMustNotRun { uid: u }) if u == uid)
    })
    .unwrap_or(false);
    if fault {
        std::panic::panic_any(UserFault::Matcher { uid });
    }
    accepted
}

pub fn note(what: impl Into<String>) {
    let what = what.into();
    let _ = try_with_tl(|t| {
        let step = t.run.tick();
        let tid = t.tid;
        t.run.log(|l| {
            l.events.push(Event::Note {
                step,
                thread: tid,
                what,
            })
        });
    });
}
