//! Command line: `run` (parent: forks worker processes, aggregates, minimises, writes evidence),
//! `worker`, `replay`, `shrink`.

use std::collections::{BTreeMap, BTreeSet};
use std::io::{BufRead, BufReader, Write};
use std::path::PathBuf;
use std::process::{Command, Stdio};
use std::time::Instant;

use serde::{Deserialize, Serialize};
use serde_json::json;

use crate::oracle::Violation;
use crate::props::{self, RunStats};
use crate::spec::Scenario;

pub fn root() -> PathBuf {
    PathBuf::from(std::env::var("SIM_ROOT").unwrap_or_else(|_| "/verif".into()))
}

#[derive(Serialize, Deserialize, Clone, Debug)]
pub struct KnownFinding {
    pub property: String,
    pub clause: String,
    /// the violation key must equal this, or start with it when it ends in '*'
    pub key: String,
    pub what: String,
}

#[derive(Serialize, Deserialize, Clone, Debug, Default)]
pub struct KnownFindings {
    #[serde(default)]
    pub findings: Vec<KnownFinding>,
    #[serde(default)]
    pub fixed: Vec<String>,
}

pub fn load_known() -> KnownFindings {
    let p = root().join("known_findings.json");
    match std::fs::read_to_string(&p) {
        Ok(s) => serde_json::from_str(&s).unwrap_or_else(|e| {
            eprintln!("harness error: cannot parse {}: {e}", p.display());
            std::process::exit(2)
        }),
        Err(_) => KnownFindings::default(),
    }
}

impl KnownFindings {
    pub fn matches(&self, v: &Violation) -> Option<usize> {
        self.findings.iter().position(|k| {
            k.property == v.prop
                && k.clause == v.clause
                && (k.key == v.key || (k.key.ends_with('*') && v.key.starts_with(&k.key[..k.key.len() - 1])))
        })
    }
}

#[derive(Serialize, Deserialize, Clone, Debug)]
pub struct ReplayFile {
    pub property: String,
    pub clause: String,
    pub key: String,
    pub detail: String,
    pub minimised: bool,
    pub scenario: Scenario,
    #[serde(default)]
    pub original_ops: usize,
    #[serde(default)]
    pub shrink_evaluations: u64,
    /// schedule minimisation: decisions the seeded strategy took in the failing run / explicit
    /// decisions left in `scenario.sched.choices` / how many of those are not "stay" (255)
    #[serde(default)]
    pub schedule: Option<ScheduleTrace>,
}

#[derive(Serialize, Deserialize, Clone, Debug)]
pub struct ScheduleTrace {
    pub decisions_recorded: usize,
    pub decisions_kept: usize,
    pub explicit_decisions: usize,
    pub evaluations: u64,
    pub note: String,
}

#[derive(Serialize, Deserialize, Default, Debug)]
struct Summary {
    runs: u64,
    nontrivial: u64,
    ops: u64,
    calls: u64,
    steps: u64,
    switches: u64,
    extra_runs: u64,
    max_threads: u64,
    faults: BTreeMap<String, u64>,
    probes: BTreeMap<String, u64>,
    shapes: Vec<u64>,
    interleavings: Vec<u64>,
    per_batch: BTreeMap<String, u64>,
    known_hits: BTreeMap<usize, u64>,
    samples: Vec<serde_json::Value>,
    violations: u64,
    wall_s: f64,
}

fn arg<'a>(args: &'a [String], name: &str) -> Option<&'a str> {
    args.iter().position(|a| a == name).and_then(|i| args.get(i + 1)).map(|s| s.as_str())
}

fn env_seed() -> u64 {
    std::env::var("VERIF_SEED").ok().and_then(|s| s.parse().ok()).unwrap_or(1)
}

pub fn main_worker(args: &[String]) {
    let prop = arg(args, "--prop").expect("--prop");
    let tier = arg(args, "--tier").unwrap_or("quick");
    let seed: u64 = arg(args, "--seed").and_then(|s| s.parse().ok()).unwrap_or(1);
    let worker: u64 = arg(args, "--worker").and_then(|s| s.parse().ok()).unwrap_or(0);
    let of: u64 = arg(args, "--of").and_then(|s| s.parse().ok()).unwrap_or(1);
    let scale: f64 = arg(args, "--scale").and_then(|s| s.parse().ok()).unwrap_or(1.0);
    let budget_s: f64 = arg(args, "--budget-s").and_then(|s| s.parse().ok()).unwrap_or(1e9);
    // panics of simulated threads are part of the runs; a panic of the harness's own thread is a bug
    std::panic::set_hook(Box::new(|info| {
        if std::thread::current().name() != Some("sim") {
            eprintln!("HARNESS-PANIC {info}");
        }
    }));
    let known = load_known();
    let start = Instant::now();
    let out = std::io::stdout();
    let mut sum = Summary::default();
    let mut shapes: BTreeSet<u64> = BTreeSet::new();
    let mut inters: BTreeSet<u64> = BTreeSet::new();
    let mut reported = 0;
    'batches: for (batch, n) in props::batches(prop, tier) {
        let n = ((n as f64) * scale).ceil() as u64;
        let mut run = worker;
        while run < n {
            if start.elapsed().as_secs_f64() > budget_s {
                break 'batches;
            }
            {
                // progress marker: lets the parent name the run a dying worker was executing
                let mut o = out.lock();
                let _ = writeln!(o, "{{\"type\":\"begin\",\"batch\":\"{batch}\",\"run\":{run}}}");
            }
            let scn = props::generate(prop, seed, batch, run);
            let checked = props::check(&scn);
            if let Some(e) = checked.harness_error {
                let mut o = out.lock();
                let _ = writeln!(
                    o,
                    "{}",
                    json!({"type":"harness_error","batch":batch,"run":run,"error":e,"scenario":scn})
                );
                let _ = o.flush();
                std::process::exit(2);
            }
            let st: RunStats = checked.stats;
            sum.runs += 1;
            *sum.per_batch.entry(batch.to_string()).or_default() += 1;
            sum.ops += st.ops;
            sum.calls += st.calls;
            sum.steps += st.steps;
            sum.switches += st.switches;
            sum.extra_runs += st.extra_runs;
            sum.max_threads = sum.max_threads.max(st.threads);
            for (k, c) in st.faults {
                *sum.faults.entry(k).or_default() += c;
            }
            for (k, c) in st.probes {
                *sum.probes.entry(k).or_default() += c;
            }
            if st.nontrivial {
                if shapes.insert(st.shape) {
                    sum.nontrivial += 1;
                }
                if st.switches > 0 {
                    inters.insert(st.interleaving);
                }
                if sum.samples.is_empty() || (sum.samples.len() < 3 && (run / of) % 997 == 3) {
                    sum.samples.push(match &st.sample {
                        Some(text) => json!({"run": run, "batch": batch, "case": text}),
                        None => props::sample_of(&scn),
                    });
                }
            }
            for v in checked.violations {
                if let Some(i) = known.matches(&v) {
                    *sum.known_hits.entry(i).or_default() += 1;
                    continue;
                }
                sum.violations += 1;
                if reported < 3 {
                    reported += 1;
                    let mut o = out.lock();
                    let _ = writeln!(
                        o,
                        "{}",
                        json!({"type":"violation","batch":batch,"run":run,"violation":v,"scenario":scn})
                    );
                }
            }
            if reported >= 3 {
                break 'batches;
            }
            run += of;
        }
    }
    sum.shapes = shapes.into_iter().collect();
    sum.interleavings = inters.into_iter().collect();
    sum.wall_s = start.elapsed().as_secs_f64();
    let mut o = out.lock();
    let _ = writeln!(o, "{}", json!({"type":"summary","summary":sum}));
    let _ = o.flush();
}

fn exe() -> PathBuf {
    std::env::current_exe().expect("current_exe")
}

fn write_replay(rf: &ReplayFile, name: &str) -> PathBuf {
    let dir = root().join("replays");
    let _ = std::fs::create_dir_all(&dir);
    let p = dir.join(name);
    std::fs::write(&p, serde_json::to_string_pretty(rf).unwrap()).expect("write replay");
    p
}

pub fn main_run(args: &[String]) -> i32 {
    let prop = arg(args, "--prop").expect("--prop").to_string();
    let tier = arg(args, "--tier")
        .map(|s| s.to_string())
        .or_else(|| std::env::var("VERIF_TIER").ok())
        .filter(|t| t == "quick" || t == "thorough")
        .unwrap_or_else(|| "quick".into());
    let seed: u64 = arg(args, "--seed").and_then(|s| s.parse().ok()).unwrap_or_else(env_seed);
    let workers: u64 = arg(args, "--workers").and_then(|s| s.parse().ok()).unwrap_or(16);
    let scale = arg(args, "--scale").unwrap_or("1").to_string();
    let start = Instant::now();
    if let Some(code) = crate::special::run_special(&prop, &tier, seed, workers) {
        return code;
    }
    if props::batches(&prop, &tier).is_empty() {
        eprintln!("harness error: property {prop} has no check");
        return 2;
    }
    println!("property={prop} tier={tier} VERIF_SEED={seed} workers={workers}");
    let mut children = vec![];
    for w in 0..workers {
        let mut cmd = Command::new(exe());
        cmd.args([
            "worker", "--prop", &prop, "--tier", &tier, "--seed", &seed.to_string(), "--worker", &w.to_string(),
            "--of", &workers.to_string(), "--scale", &scale,
        ]);
        if let Some(b) = arg(args, "--budget-s") {
            cmd.args(["--budget-s", b]);
        }
        cmd.stdout(Stdio::piped()).stderr(Stdio::null()).stdin(Stdio::null());
        children.push(cmd.spawn().expect("spawn worker"));
    }
    let mut total = Summary::default();
    let mut shapes: BTreeSet<u64> = BTreeSet::new();
    let mut inters: BTreeSet<u64> = BTreeSet::new();
    let mut violations: Vec<(String, u64, Violation, Scenario)> = vec![];
    let mut harness_errors: Vec<String> = vec![];
    let mut readers = vec![];
    for (w, ch) in children.iter_mut().enumerate() {
        let stdout = ch.stdout.take().unwrap();
        readers.push(std::thread::spawn(move || {
            let mut lines: Vec<serde_json::Value> = vec![];
            let mut last_begin = String::new();
            for line in BufReader::new(stdout).lines().map_while(Result::ok) {
                if line.starts_with("{\"type\":\"begin\"") {
                    last_begin = line;
                    continue;
                }
                if let Ok(v) = serde_json::from_str::<serde_json::Value>(&line) {
                    lines.push(v);
                }
            }
            (w, lines, last_begin)
        }));
    }
    let mut outputs = vec![];
    for r in readers {
        outputs.push(r.join().expect("reader"));
    }
    for (w, ch) in children.iter_mut().enumerate() {
        let status = ch.wait().expect("wait");
        let (_, lines, last_begin) = &outputs[w];
        let has_summary = lines.iter().any(|l| l["type"] == "summary");
        if !status.success() || !has_summary {
            let he = lines.iter().find(|l| l["type"] == "harness_error");
            // a worker that is killed by a signal (abort after a double panic, stack overflow) while it
            // runs real unimock code is an observation, not a harness problem - in the crash world by
            // design, elsewhere because no statement lets the mock take the process down. Re-run the
            // scenario it was executing alone, in a child process; if the child dies as well that is
            // the violation (and the replay).
            use std::os::unix::process::ExitStatusExt;
            if (prop == "C11" || status.signal().is_some()) && he.is_none() {
                if let Ok(b) = serde_json::from_str::<serde_json::Value>(last_begin) {
                    let (batch, run) = (b["batch"].as_str().unwrap_or("").to_string(), b["run"].as_u64().unwrap_or(0));
                    let mut scn = props::generate(&prop, seed, &batch, run);
                    scn.knobs.push(("isolated".into(), 1));
                    let c = props::check(&scn);
                    if let Some(v) = c.violations.into_iter().next() {
                        total.violations += 1;
                        violations.push((batch, run, v, scn));
                        continue;
                    }
                }
            }
            harness_errors.push(match he {
                Some(l) => format!("worker {w}: {} (batch {} run {})", l["error"], l["batch"], l["run"]),
                None => format!("worker {w} died with {status} while executing {last_begin}"),
            });
        }
        for l in lines {
            match l["type"].as_str() {
                Some("summary") => {
                    let s: Summary = serde_json::from_value(l["summary"].clone()).expect("summary");
                    total.runs += s.runs;
                    total.ops += s.ops;
                    total.calls += s.calls;
                    total.steps += s.steps;
                    total.switches += s.switches;
                    total.extra_runs += s.extra_runs;
                    total.violations += s.violations;
                    total.max_threads = total.max_threads.max(s.max_threads);
                    total.wall_s = total.wall_s.max(s.wall_s);
                    for (k, c) in s.faults {
                        *total.faults.entry(k).or_default() += c;
                    }
                    for (k, c) in s.probes {
                        *total.probes.entry(k).or_default() += c;
                    }
                    for (k, c) in s.per_batch {
                        *total.per_batch.entry(k).or_default() += c;
                    }
                    for (k, c) in s.known_hits {
                        *total.known_hits.entry(k).or_default() += c;
                    }
                    shapes.extend(s.shapes);
                    inters.extend(s.interleavings);
                    for smp in s.samples {
                        if total.samples.len() < 3 {
                            total.samples.push(smp);
                        }
                    }
                }
                Some("violation") => {
                    let v: Violation = serde_json::from_value(l["violation"].clone()).expect("violation");
                    let scn: Scenario = serde_json::from_value(l["scenario"].clone()).expect("scenario");
                    violations.push((l["batch"].as_str().unwrap_or("").to_string(), l["run"].as_u64().unwrap_or(0), v, scn));
                }
                _ => {}
            }
        }
    }
    if !harness_errors.is_empty() {
        for e in &harness_errors {
            println!("HARNESS-ERROR property={prop} {e}");
        }
        return 2;
    }
    let known = load_known();
    for (i, hits) in &total.known_hits {
        let k = &known.findings[*i];
        println!("KNOWN-FINDING: property={} {} [clause {} key {}; reproduced in {} runs]", k.property, k.what, k.clause, k.key, hits);
    }
    let wall = start.elapsed().as_secs_f64();
    let mut exit = 0;
    let mut replay_path = None;
    if !violations.is_empty() {
        violations.sort_by(|a, b| (a.0.clone(), a.1).cmp(&(b.0.clone(), b.1)));
        let (batch, run, v, scn) = violations[0].clone();
        println!("violation found: batch {batch} run {run} clause {}: {}", v.clause, v.detail);
        let nostd_stage = std::env::var("SIM_STAGE").map(|v| v == "nostd").unwrap_or(false);
        let mut scn = scn;
        if nostd_stage {
            scn.knobs.push(("nostd_build".into(), 1));
        }
        let raw = ReplayFile {
            property: prop.clone(),
            clause: v.clause.clone(),
            key: v.key.clone(),
            detail: v.detail.clone(),
            minimised: false,
            original_ops: scn.n_ops(),
            shrink_evaluations: 0,
            scenario: scn,
            schedule: None,
        };
        let raw_path = write_replay(&raw, &format!("{prop}-seed{seed}-{batch}-run{run}.raw.json"));
        let min_path = root().join("replays").join(format!("{prop}-seed{seed}-{batch}-run{run}.json"));
        // minimise in a fresh process, then replay the minimised file in another fresh process
        let st = Command::new(exe())
            .args(["shrink", raw_path.to_str().unwrap(), min_path.to_str().unwrap()])
            .stderr(Stdio::null())
            .status();
        let chosen = if matches!(st, Ok(s) if s.success()) && min_path.exists() { min_path } else { raw_path.clone() };
        let rep = Command::new(exe())
            .args(["replay", chosen.to_str().unwrap()])
            .stderr(Stdio::null())
            .status();
        match rep {
            Ok(s) if s.code() == Some(1) => {
                println!("VIOLATION property={prop} replay={}", chosen.display());
                replay_path = Some(chosen);
                exit = 1;
            }
            _ => {
                // the minimised file does not reproduce: fall back to the raw one
                let rep2 = Command::new(exe()).args(["replay", raw_path.to_str().unwrap()]).stderr(Stdio::null()).status();
                if matches!(rep2, Ok(s) if s.code() == Some(1)) {
                    println!("VIOLATION property={prop} replay={}", raw_path.display());
                    replay_path = Some(raw_path);
                    exit = 1;
                } else {
                    println!("HARNESS-ERROR property={prop} a violation was observed but its replay file does not reproduce it: {}", raw_path.display());
                    return 2;
                }
            }
        }
    }
    // thorough tier: the Miri stage (preemption at every memory access, not only at yield points)
    let mut miri_json = json!({"status": "not part of this tier"});
    if tier == "thorough" && matches!(prop.as_str(), "C08" | "C10" | "C12" | "C13") && exit == 0 {
        // scenario executions per interpreter seed: C10's oracle runs sequential twins, which are slow
        // under the interpreter
        let per_seed = match prop.as_str() {
            "C10" => 2,
            "C13" => 6,
            _ => 10,
        };
        let st = run_miri_stage(&prop, seed, 16, per_seed);
        println!("miri stage: {} - {} scenario executions over {} interpreter seeds in {:.0}s, {} violation(s)", st.status, st.executions, st.seeds, st.wall_s, st.violations.len());
        miri_json = json!({"status": st.status, "scenario_executions": st.executions, "interpreter_seeds": st.seeds, "wall_s": st.wall_s, "violations": st.violations.len(),
            "flags": miri_flags(0), "note": "free-running mode: the baton scheduler is off, Miri decides the interleaving and may preempt at every basic block; same oracles"});
        if let Some((k, batch, run, text)) = st.violations.first().cloned() {
            total.violations += st.violations.len() as u64;
            let mut scn = if batch.is_empty() { props::generate(&prop, seed, props::batches(&prop, "quick")[0].0, 0) } else { props::generate(&prop, seed, &batch, run) };
            scn.sched.strategy = crate::spec::Strategy::Free;
            scn.knobs.push(("miri_seed".into(), k as i64));
            let rf = ReplayFile { property: prop.clone(), clause: "miri-stage".into(), key: format!("miri-seed-{k}"), detail: text.clone(), minimised: false, original_ops: scn.n_ops(), shrink_evaluations: 0, scenario: scn, schedule: None };
            let path = write_replay(&rf, &format!("{prop}-seed{seed}-miri{k}-{batch}-run{run}.json"));
            println!("violation found by the Miri stage: {text}");
            println!("VIOLATION property={prop} replay={}", path.display());
            replay_path = Some(path);
            exit = 1;
        }
    }
    // warn about probes stuck at zero
    for (k, c) in &total.probes {
        if *c == 0 {
            println!("warning: probe {k} never fired");
        }
    }
    let distinct = shapes.len() as u64;
    let runs_per_hour = if wall > 0.0 { (total.runs as f64 + total.extra_runs as f64) / wall * 3600.0 } else { 0.0 };
    let evidence = json!({
        "property_id": prop,
        "tier": tier,
        "seed": seed,
        "level": if prop == "C11" { "fault_enumeration" } else { "exploration" },
        "coverage": {
            "evaluations": total.runs,
            "distinct_nontrivial": distinct,
            "rule": crate::evidence::rule_for(&prop),
            "samples": total.samples,
            "runs_per_batch": total.per_batch,
            "twin_or_auxiliary_runs": total.extra_runs,
            "simulated_runs_per_hour": runs_per_hour.round(),
            "seeds": format!("VERIF_SEED={seed}; run i of a batch uses mix(VERIF_SEED, property, batch, i)"),
            "logical_steps_simulated_time": total.steps,
            "simulated_time_note": "unimock has no clock, timer or timeout: simulated time is reported as logical steps (scheduling decisions + recorded calls)",
            "operations_executed": total.ops,
            "calls_recorded": total.calls,
            "context_switches": total.switches,
            "distinct_interleaving_signatures": inters.len(),
            "max_threads": total.max_threads,
            "faults_fired": total.faults,
            "probes": total.probes,
            "known_findings_reproduced": total.known_hits.iter().map(|(i, c)| (known.findings[*i].key.clone(), *c)).collect::<BTreeMap<_, _>>(),
            "components": crate::evidence::components(&prop),
            "replay": replay_path.as_ref().map(|p| p.display().to_string()),
            "miri_stage": miri_json,
        },
        "assumptions": crate::evidence::assumptions(&prop),
        "wall_s": wall,
        "violations": total.violations,
    });
    let mut evidence = evidence;
    let stage_dir = root().join("sim").join("stage");
    if std::env::var("SIM_STAGE").map(|v| v == "nostd").unwrap_or(false) {
        // side result of the no_std + spin-lock + critical-section build: embedded by the main run
        let _ = std::fs::create_dir_all(&stage_dir);
        std::fs::write(stage_dir.join(format!("{prop}.nostd.json")), serde_json::to_string_pretty(&evidence).unwrap()).expect("write stage evidence");
    } else {
        let side = stage_dir.join(format!("{prop}.nostd.json"));
        let stage = std::fs::read_to_string(&side).ok().and_then(|t| serde_json::from_str::<serde_json::Value>(&t).ok());
        evidence["coverage"]["no_std_spin_lock_build_stage"] = match stage {
            Some(st) if tier == "thorough" && st["seed"] == json!(seed) => {
                let _ = std::fs::remove_file(&side);
                json!({"status": "ran", "evaluations": st["coverage"]["evaluations"], "distinct_nontrivial": st["coverage"]["distinct_nontrivial"], "violations": st["violations"], "wall_s": st["wall_s"],
                       "note": "same worlds and oracles against unimock built with --no-default-features --features critical-section,spin-lock (no Termination impl: report() is verify(); C08 only judges errors induced through clones, as the property states)"})
            }
            _ => json!({"status": "not part of this tier / property"}),
        };
        let edir = root().join("evidence");
        let _ = std::fs::create_dir_all(&edir);
        std::fs::write(edir.join(format!("{prop}.json")), serde_json::to_string_pretty(&evidence).unwrap()).expect("write evidence");
    }
    println!(
        "{prop}: {} runs ({} distinct non-trivial), {} ops, {} calls, {} switches, {:.1}s, {} violation(s)",
        total.runs, distinct, total.ops, total.calls, total.switches, wall, total.violations
    );
    exit
}

pub fn main_replay(args: &[String]) -> i32 {
    std::panic::set_hook(Box::new(|_| {}));
    let path = &args[0];
    let rf: ReplayFile = match std::fs::read_to_string(path).map_err(|e| e.to_string()).and_then(|s| serde_json::from_str(&s).map_err(|e| e.to_string())) {
        Ok(r) => r,
        Err(e) => {
            eprintln!("harness error: cannot read replay file {path}: {e}");
            return 2;
        }
    };
    if let Some(code) = crate::special::replay_special(&rf) {
        return code;
    }
    let under_miri_wanted = rf.scenario.knob("miri_seed").is_some();
    let checked = if under_miri_wanted { props::check_in_process(&rf.scenario) } else { props::check(&rf.scenario) };
    if let Some(e) = checked.harness_error {
        println!("HARNESS-ERROR {e}");
        return 2;
    }
    println!("replaying {} ({} operations, minimised: {})", path, rf.scenario.n_ops(), rf.minimised);
    println!("{}", serde_json::to_string_pretty(&props::sample_of(&rf.scenario)).unwrap());
    let mut code = 0;
    for v in &checked.violations {
        println!("violation: property {} clause {} key {}: {}", v.prop, v.clause, v.key, v.detail);
        if v.prop == rf.property && (v.clause == rf.clause || rf.clause == "miri-stage") {
            code = 1;
        }
    }
    if code == 1 {
        println!("VIOLATION property={} replay={}", rf.property, path);
    } else {
        println!("the recorded violation (clause {}) did not reproduce", rf.clause);
    }
    code
}

pub fn main_shrink(args: &[String]) -> i32 {
    std::panic::set_hook(Box::new(|_| {}));
    let rf: ReplayFile = serde_json::from_str(&std::fs::read_to_string(&args[0]).expect("read")).expect("parse");
    let v = Violation { prop: rf.property.clone(), clause: rf.clause.clone(), key: rf.key.clone(), detail: rf.detail.clone() };
    // the failure must reproduce before we start
    if crate::shrink::same_failure(&rf.scenario, &v.prop, &v.clause).is_none() {
        return 3;
    }
    let s = crate::shrink::shrink(&rf.scenario, &v, 4000);
    let mut out = ReplayFile {
        property: rf.property,
        clause: s.violation.clause.clone(),
        key: s.violation.key.clone(),
        detail: s.violation.detail.clone(),
        minimised: true,
        original_ops: rf.original_ops,
        shrink_evaluations: s.evaluations,
        scenario: s.scenario,
        schedule: None,
    };
    // then the schedule: explicit decisions instead of a seeded strategy, as few as the failure needs
    if let Some(m) = crate::shrink::minimise_schedule(&out.scenario, &s.violation, 3000) {
        out.clause = m.violation.clause.clone();
        out.key = m.violation.key.clone();
        out.detail = m.violation.detail.clone();
        out.scenario = m.scenario;
        out.schedule = Some(ScheduleTrace {
            decisions_recorded: m.decisions_recorded,
            decisions_kept: m.decisions_kept,
            explicit_decisions: m.forced_switches,
            evaluations: m.evaluations,
            note: "scenario.sched.choices[i] is the i-th scheduling decision: an index into the sorted set of runnable threads, 255 = the running thread keeps running; behind the end of the list the running thread keeps running (strategy Stay)".into(),
        });
    }
    std::fs::write(&args[1], serde_json::to_string_pretty(&out).unwrap()).expect("write");
    0
}

/// Determinism self-test support: print one line per run with a hash of the complete recorded
/// history (calls, programs, operations, events, value tracking, schedule) - addresses excluded.
pub fn main_fingerprint(args: &[String]) -> i32 {
    std::panic::set_hook(Box::new(|_| {}));
    let prop = arg(args, "--prop").expect("--prop");
    let seed: u64 = arg(args, "--seed").and_then(|s| s.parse().ok()).unwrap_or(1);
    let runs: u64 = arg(args, "--runs").and_then(|s| s.parse().ok()).unwrap_or(200);
    let worker: u64 = arg(args, "--worker").and_then(|s| s.parse().ok()).unwrap_or(0);
    let of: u64 = arg(args, "--of").and_then(|s| s.parse().ok()).unwrap_or(1);
    for (batch, _) in props::batches(prop, "quick") {
        let mut run = worker;
        while run < runs {
            let scn = props::generate(prop, seed, batch, run);
            let fp = if scn.threads.is_empty() || scn.knob("isolated").is_some() {
                let c = props::check(&scn);
                crate::rng::hash_str(&format!("{:?}{:?}", c.violations.len(), c.stats.shape))
            } else {
                let res = crate::world::run(&scn);
                let mut log = res.log;
                for e in log.lend.iter_mut() {
                    if let crate::ctx::LendWhat::Taken { addr, .. } = &mut e.what {
                        *addr = 0;
                    }
                }
                let text = serde_json::to_string(&log).unwrap_or_default();
                crate::rng::hash_str(&text) ^ res.sched.signature ^ res.sched.steps
            };
            println!("{prop} {batch} {run} {fp:016x}");
            run += of;
        }
    }
    0
}

/// Miri stage: a sample of scenarios in free-running mode inside one process (no children, no
/// files): the interpreter owns the schedule and may preempt at every memory access.
pub fn main_miri_stage(args: &[String]) -> i32 {
    std::panic::set_hook(Box::new(|_| {}));
    let prop = arg(args, "--prop").expect("--prop");
    let seed: u64 = arg(args, "--seed").and_then(|s| s.parse().ok()).unwrap_or(1);
    let from: u64 = arg(args, "--from").and_then(|s| s.parse().ok()).unwrap_or(0);
    let runs: u64 = arg(args, "--runs").and_then(|s| s.parse().ok()).unwrap_or(4);
    let mut done = 0u64;
    let mut violations = 0u64;
    for (batch, _) in props::batches(prop, "quick") {
        for run in from..from + runs {
            let mut scn = props::generate(prop, seed, batch, run);
            if scn.knob("isolated").is_some() || scn.threads.len() < 2 {
                continue;
            }
            scn.sched.strategy = crate::spec::Strategy::Free;
            let c = props::check_in_process(&scn);
            done += 1;
            if let Some(e) = c.harness_error {
                println!("MIRI-STAGE harness error batch {batch} run {run}: {e}");
                return 2;
            }
            for v in c.violations {
                violations += 1;
                println!("MIRI-STAGE-VIOLATION property={} batch={batch} run={run} clause={} {}", v.prop, v.clause, v.detail);
            }
        }
    }
    println!("MIRI-STAGE property={prop} scenarios={done} violations={violations}");
    if violations > 0 {
        1
    } else {
        0
    }
}

pub struct MiriStage {
    pub status: String,
    pub executions: u64,
    pub seeds: u64,
    pub wall_s: f64,
    /// (miri seed, batch, run, text)
    pub violations: Vec<(u64, String, u64, String)>,
}

fn miri_flags(seed: u64) -> String {
    format!("-Zmiri-disable-isolation -Zmiri-preemption-rate=0.2 -Zmiri-seed={seed}")
}

/// Thorough tier, second scheduler: the same scenarios in free-running mode under Miri, one
/// `cargo miri run` per interpreter seed, all seeds in parallel.
pub fn run_miri_stage(prop: &str, seed: u64, n_seeds: u64, runs: u64) -> MiriStage {
    let start = Instant::now();
    let dir = root().join("sim");
    let target = dir.join("target-miri");
    // build once (also tells us whether Miri is usable here)
    let probe = Command::new("cargo")
        .args(["+nightly", "miri", "run", "--offline", "--", "miri-stage", "--prop", prop, "--runs", "0"])
        .current_dir(&dir)
        .env("CARGO_TARGET_DIR", &target)
        .env("MIRIFLAGS", miri_flags(0))
        .env("RUSTFLAGS", "--cfg unimock_verif")
        .stdout(Stdio::piped())
        .stderr(Stdio::piped())
        .output();
    match probe {
        Ok(o) if o.status.success() => {}
        Ok(o) => {
            let err = String::from_utf8_lossy(&o.stderr);
            return MiriStage { status: format!("skipped: cargo miri failed: {}", err.lines().rev().take(3).collect::<Vec<_>>().join(" | ")), executions: 0, seeds: 0, wall_s: 0.0, violations: vec![] };
        }
        Err(e) => return MiriStage { status: format!("skipped: cannot run cargo miri: {e}"), executions: 0, seeds: 0, wall_s: 0.0, violations: vec![] },
    }
    let mut children = vec![];
    for k in 0..n_seeds {
        let child = Command::new("cargo")
            .args(["+nightly", "miri", "run", "--offline", "--", "miri-stage", "--prop", prop, "--seed", &seed.to_string(), "--from", &(k * runs).to_string(), "--runs", &runs.to_string()])
            .current_dir(&dir)
            .env("CARGO_TARGET_DIR", &target)
            .env("MIRIFLAGS", miri_flags(k))
            .env("RUSTFLAGS", "--cfg unimock_verif")
            .stdout(Stdio::piped())
            .stderr(Stdio::null())
            .spawn();
        if let Ok(c) = child {
            children.push((k, c));
        }
    }
    let mut stage = MiriStage { status: "ran".into(), executions: 0, seeds: children.len() as u64, wall_s: 0.0, violations: vec![] };
    for (k, c) in children {
        if let Ok(out) = c.wait_with_output() {
            for line in String::from_utf8_lossy(&out.stdout).lines() {
                if let Some(rest) = line.strip_prefix("MIRI-STAGE-VIOLATION ") {
                    let get = |key: &str| rest.split_whitespace().find_map(|w| w.strip_prefix(key)).unwrap_or("").to_string();
                    stage.violations.push((k, get("batch="), get("run=").parse().unwrap_or(0), rest.to_string()));
                } else if let Some(rest) = line.strip_prefix("MIRI-STAGE property=") {
                    if let Some(n) = rest.split_whitespace().find_map(|w| w.strip_prefix("scenarios=")) {
                        stage.executions += n.parse::<u64>().unwrap_or(0);
                    }
                } else if line.starts_with("MIRI-STAGE harness error") {
                    stage.status = format!("harness error under Miri (seed {k}): {line}");
                }
            }
            if !out.status.success() && stage.violations.iter().all(|v| v.0 != k) && stage.status == "ran" {
                stage.status = format!("interpreter seed {k} ended with {} (data race or UB reported by Miri, or a crash): treated as a violation", out.status);
                stage.violations.push((k, String::new(), 0, format!("Miri seed {k}: the interpreter aborted the run ({})", out.status)));
            }
        }
    }
    stage.wall_s = start.elapsed().as_secs_f64();
    stage
}
