//! A tiny single-thread executor owned by the harness: `block_on` for ordinary operations and the
//! pieces the executor world (C16) needs: a yield future and a counting no-op waker.

use std::future::Future;
use std::pin::Pin;
use std::sync::atomic::{AtomicU64, Ordering};
use std::sync::Arc;
use std::task::{Context, Poll, RawWaker, RawWakerVTable, Waker};

pub static WAKES: AtomicU64 = AtomicU64::new(0);

fn raw_waker() -> RawWaker {
    fn clone(_: *const ()) -> RawWaker {
        raw_waker()
    }
    fn wake(_: *const ()) {
        WAKES.fetch_add(1, Ordering::Relaxed);
    }
    fn noop(_: *const ()) {}
    static VTABLE: RawWakerVTable = RawWakerVTable::new(clone, wake, wake, noop);
    RawWaker::new(std::ptr::null(), &VTABLE)
}

pub fn counting_waker() -> Waker {
    // SAFETY: the vtable functions never touch the data pointer.
    unsafe { Waker::from_raw(raw_waker()) }
}

/// Pending exactly once, then ready. Gives "cancel midway" somewhere to land.
pub struct YieldOnce(bool);

pub fn yield_once() -> YieldOnce {
    YieldOnce(false)
}

impl Future for YieldOnce {
    type Output = ();
    fn poll(mut self: Pin<&mut Self>, cx: &mut Context<'_>) -> Poll<()> {
        if self.0 {
            Poll::Ready(())
        } else {
            self.0 = true;
            cx.waker().wake_by_ref();
            Poll::Pending
        }
    }
}

pub fn block_on<F: Future>(fut: F) -> F::Output {
    let mut fut = std::pin::pin!(fut);
    let waker = counting_waker();
    let mut cx = Context::from_waker(&waker);
    let mut polls = 0u32;
    loop {
        if let Poll::Ready(v) = fut.as_mut().poll(&mut cx) {
            return v;
        }
        polls += 1;
        assert!(polls < 10_000, "future never completes");
    }
}

pub type BoxFut<'a> = Pin<Box<dyn Future<Output = u64> + 'a>>;

#[allow(dead_code)]
pub fn arc_waker_count() -> Arc<AtomicU64> {
    Arc::new(AtomicU64::new(0))
}
