//! The one source of pseudo-randomness: xoshiro256** seeded through splitmix64.
//! Every choice of a run (configuration, workload, faults, schedule) is drawn from
//! generators derived from `mix(VERIF_SEED, property, run_index)`.

#[derive(Clone, Debug)]
pub struct Rng {
    s: [u64; 4],
}

pub fn splitmix(x: &mut u64) -> u64 {
    *x = x.wrapping_add(0x9E37_79B9_7F4A_7C15);
    let mut z = *x;
    z = (z ^ (z >> 30)).wrapping_mul(0xBF58_476D_1CE4_E5B9);
    z = (z ^ (z >> 27)).wrapping_mul(0x94D0_49BB_1331_11EB);
    z ^ (z >> 31)
}

/// Mix several integers into one seed.
pub fn mix(parts: &[u64]) -> u64 {
    let mut acc = 0x1234_5678_9ABC_DEF0u64;
    for p in parts {
        let mut x = acc ^ p.wrapping_mul(0xD6E8_FEB8_6659_FD93);
        acc = splitmix(&mut x);
    }
    acc
}

pub fn hash_str(s: &str) -> u64 {
    // FNV-1a
    let mut h = 0xcbf2_9ce4_8422_2325u64;
    for b in s.as_bytes() {
        h ^= *b as u64;
        h = h.wrapping_mul(0x0000_0100_0000_01B3);
    }
    h
}

impl Rng {
    pub fn new(seed: u64) -> Self {
        let mut x = seed;
        let s = [
            splitmix(&mut x),
            splitmix(&mut x),
            splitmix(&mut x),
            splitmix(&mut x),
        ];
        Self { s }
    }

    pub fn next(&mut self) -> u64 {
        let result = self.s[1].wrapping_mul(5).rotate_left(7).wrapping_mul(9);
        let t = self.s[1] << 17;
        self.s[2] ^= self.s[0];
        self.s[3] ^= self.s[1];
        self.s[1] ^= self.s[2];
        self.s[0] ^= self.s[3];
        self.s[2] ^= t;
        self.s[3] = self.s[3].rotate_left(45);
        result
    }

    /// uniform in 0..n (n > 0)
    pub fn below(&mut self, n: u64) -> u64 {
        debug_assert!(n > 0);
        // multiply-shift; bias is irrelevant here
        ((self.next() as u128 * n as u128) >> 64) as u64
    }

    pub fn usize(&mut self, n: usize) -> usize {
        self.below(n as u64) as usize
    }

    /// inclusive range
    pub fn range(&mut self, lo: usize, hi: usize) -> usize {
        lo + self.usize(hi.saturating_sub(lo) + 1)
    }

    /// true with probability num/den
    pub fn chance(&mut self, num: u64, den: u64) -> bool {
        self.below(den) < num
    }

    pub fn pick<'a, T>(&mut self, items: &'a [T]) -> &'a T {
        &items[self.usize(items.len())]
    }

    /// pick an index according to integer weights
    pub fn weighted(&mut self, weights: &[u32]) -> usize {
        let total: u64 = weights.iter().map(|w| *w as u64).sum();
        let mut r = self.below(total.max(1));
        for (i, w) in weights.iter().enumerate() {
            if r < *w as u64 {
                return i;
            }
            r -= *w as u64;
        }
        weights.len() - 1
    }

    pub fn shuffle<T>(&mut self, items: &mut [T]) {
        for i in (1..items.len()).rev() {
            let j = self.usize(i + 1);
            items.swap(i, j);
        }
    }

    pub fn fork(&mut self) -> Rng {
        Rng::new(self.next())
    }
}

/// Streaming 64-bit hasher for signatures (not for decisions).
#[derive(Clone, Copy)]
pub struct Sig(pub u64);

impl Sig {
    pub fn new() -> Self {
        Sig(0xcbf2_9ce4_8422_2325)
    }
    pub fn add(&mut self, v: u64) {
        let mut x = self.0 ^ v.wrapping_mul(0x9E37_79B9_7F4A_7C15);
        self.0 = splitmix(&mut x);
    }
    pub fn add_str(&mut self, s: &str) {
        self.add(hash_str(s));
    }
}
