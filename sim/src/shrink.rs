//! Minimisation of a failing scenario: delta debugging over threads, operations, clauses, patterns,
//! segments, counts, faults, programs and the schedule, accepting a candidate only while the *same
//! oracle clause* keeps failing.

use crate::model::constructible;
use crate::oracle::Violation;
use crate::props;
use crate::spec::*;

fn valid(scn: &Scenario) -> bool {
    let cfgs: Vec<&Config> = std::iter::once(&scn.config).chain(scn.config2.iter()).collect();
    for cfg in cfgs {
        if !constructible(cfg) {
            return false;
        }
        for c in &cfg.clauses {
            if c.form != Form::Stub && c.patterns.len() != 1 {
                return false;
            }
            for p in &c.patterns {
                if p.segs.is_empty() && c.form != Form::Stub {
                    return false;
                }
                for (i, s) in p.segs.iter().enumerate() {
                    let last = i + 1 == p.segs.len();
                    match s.quant {
                        Quant::Unq if !last => return false,
                        Quant::AtLeast(_) if !last || c.form.ordered() => return false,
                        _ => {}
                    }
                }
            }
        }
    }
    !scn.threads.is_empty()
}

fn remap_uids(scn: &mut Scenario, removed_uid: u16, n_removed: u16) {
    for t in scn.threads.iter_mut() {
        for op in t.iter_mut() {
            let fault = match op {
                Op::Call { fault, .. } => fault,
                Op::Own { fault, .. } => fault,
                _ => continue,
            };
            if let Some(Fault::MatcherPanic { uid }) | Some(Fault::MatcherMustNotRun { uid }) = fault {
                if *uid >= removed_uid && *uid < removed_uid + n_removed {
                    *fault = None;
                } else if *uid >= removed_uid + n_removed {
                    *uid -= n_removed;
                }
            }
        }
    }
}

fn first_uid_of_clause(cfg: &Config, ci: usize) -> u16 {
    cfg.clauses[..ci].iter().map(|c| c.patterns.len() as u16).sum()
}

/// All one-step simplifications of a scenario.
fn candidates(scn: &Scenario) -> Vec<Scenario> {
    let mut out = vec![];
    // drop a whole thread (not thread 0: it creates the mock)
    for t in (1..scn.threads.len()).rev() {
        let mut c = scn.clone();
        c.threads[t].clear();
        if c.threads[t] != scn.threads[t] {
            out.push(c);
        }
    }
    if scn.threads.len() > 1 && scn.threads.last().map(|t| t.is_empty()).unwrap_or(false) {
        let mut c = scn.clone();
        c.threads.pop();
        out.push(c);
    }
    // drop an operation
    let prelude = scn.knob("prelude").unwrap_or(0) as usize;
    for t in 0..scn.threads.len() {
        for i in (0..scn.threads[t].len()).rev() {
            let mut c = scn.clone();
            c.threads[t].remove(i);
            if t == 0 && i < prelude {
                for k in c.knobs.iter_mut() {
                    if k.0 == "prelude" {
                        k.1 -= 1;
                    }
                }
            }
            out.push(c);
        }
    }
    // drop a clause / a pattern of a stub
    for ci in (0..scn.config.clauses.len()).rev() {
        let uid0 = first_uid_of_clause(&scn.config, ci);
        let mut c = scn.clone();
        let n = c.config.clauses[ci].patterns.len() as u16;
        c.config.clauses.remove(ci);
        remap_uids(&mut c, uid0, n);
        out.push(c);
        if scn.config.clauses[ci].patterns.len() > 1 {
            for pi in (0..scn.config.clauses[ci].patterns.len()).rev() {
                let mut c = scn.clone();
                c.config.clauses[ci].patterns.remove(pi);
                remap_uids(&mut c, uid0 + pi as u16, 1);
                out.push(c);
            }
        }
    }
    // simplify patterns
    for ci in 0..scn.config.clauses.len() {
        for pi in 0..scn.config.clauses[ci].patterns.len() {
            let p = &scn.config.clauses[ci].patterns[pi];
            // drop the last / first segment
            if p.segs.len() > 1 {
                let mut c = scn.clone();
                c.config.clauses[ci].patterns[pi].segs.pop();
                out.push(c);
                let mut c = scn.clone();
                c.config.clauses[ci].patterns[pi].segs.remove(0);
                out.push(c);
            }
            for si in 0..p.segs.len() {
                // shrink counts
                let q = p.segs[si].quant;
                let smaller = match q {
                    Quant::N(n) if n > 1 => Some(Quant::N(n - 1)),
                    Quant::N(1) => Some(Quant::Once),
                    Quant::AtLeast(n) if n > 0 => Some(Quant::AtLeast(n - 1)),
                    _ => None,
                };
                if let Some(q2) = smaller {
                    let mut c = scn.clone();
                    c.config.clauses[ci].patterns[pi].segs[si].quant = q2;
                    out.push(c);
                }
                // simpler response kind
                match &p.segs[si].resp {
                    Resp::Returns => {}
                    Resp::Answers(pr) | Resp::AnswersArc(pr) if !pr.calls.is_empty() => {
                        for k in (0..pr.calls.len()).rev() {
                            let mut c = scn.clone();
                            match &mut c.config.clauses[ci].patterns[pi].segs[si].resp {
                                Resp::Answers(pr) | Resp::AnswersArc(pr) => {
                                    pr.calls.remove(k);
                                }
                                _ => {}
                            }
                            out.push(c);
                        }
                    }
                    _ => {
                        let mut c = scn.clone();
                        c.config.clauses[ci].patterns[pi].segs[si].resp = Resp::Returns;
                        out.push(c);
                    }
                }
            }
            // wildcard predicate
            let all = if scn.config.clauses[ci].m.domain() == 16 { 0xffff } else { 0xf };
            if p.pred != all {
                let mut c = scn.clone();
                c.config.clauses[ci].patterns[pi].pred = all;
                out.push(c);
            }
        }
    }
    // simplify programs of real functions and default bodies
    for (i, (_, pr)) in scn.config.real_progs.iter().enumerate() {
        if !pr.calls.is_empty() {
            let mut c = scn.clone();
            c.config.real_progs[i].1.calls.pop();
            out.push(c);
        }
    }
    for (i, (_, pr)) in scn.config.default_progs.iter().enumerate() {
        if !pr.calls.is_empty() {
            let mut c = scn.clone();
            c.config.default_progs[i].1.calls.pop();
            out.push(c);
        }
    }
    // drop faults, simplify arguments and routing
    for t in 0..scn.threads.len() {
        for i in 0..scn.threads[t].len() {
            if let Op::Call { slot, x, y, fault, catch, .. } = &scn.threads[t][i] {
                if fault.is_some() {
                    let mut c = scn.clone();
                    if let Op::Call { fault, .. } = &mut c.threads[t][i] {
                        *fault = None;
                    }
                    out.push(c);
                }
                if *slot != 0 {
                    let mut c = scn.clone();
                    if let Op::Call { slot, .. } = &mut c.threads[t][i] {
                        *slot = 0;
                    }
                    out.push(c);
                }
                if *x != 0 {
                    let mut c = scn.clone();
                    if let Op::Call { x, .. } = &mut c.threads[t][i] {
                        *x = 0;
                    }
                    out.push(c);
                }
                if *y != 0 {
                    let mut c = scn.clone();
                    if let Op::Call { y, .. } = &mut c.threads[t][i] {
                        *y = 0;
                    }
                    out.push(c);
                }
                if !*catch {
                    let mut c = scn.clone();
                    if let Op::Call { catch, .. } = &mut c.threads[t][i] {
                        *catch = true;
                    }
                    out.push(c);
                }
            }
        }
    }
    // world-specific operations
    for t in 0..scn.threads.len() {
        for i in 0..scn.threads[t].len() {
            match &scn.threads[t][i] {
                Op::LendSession { steps, exclusive, .. } => {
                    for k in (0..steps.len()).rev() {
                        let mut c = scn.clone();
                        if let Op::LendSession { steps, .. } = &mut c.threads[t][i] {
                            steps.remove(k);
                        }
                        out.push(c);
                        if let LendStep::Take { n, .. } = steps[k] {
                            if n > 1 {
                                let mut c = scn.clone();
                                if let Op::LendSession { steps, .. } = &mut c.threads[t][i] {
                                    if let LendStep::Take { n, .. } = &mut steps[k] {
                                        *n = if *n > 8 { *n / 2 } else { *n - 1 };
                                    }
                                }
                                out.push(c);
                            }
                        }
                    }
                    if *exclusive && !steps.iter().any(|s| matches!(s, LendStep::MakeMut { .. } | LendStep::ViaMut { .. })) {
                        let mut c = scn.clone();
                        if let Op::LendSession { exclusive, .. } = &mut c.threads[t][i] {
                            *exclusive = false;
                        }
                        out.push(c);
                    }
                }
                Op::Own { die_with_value, fault, .. } => {
                    if *die_with_value {
                        let mut c = scn.clone();
                        if let Op::Own { die_with_value, .. } = &mut c.threads[t][i] {
                            *die_with_value = false;
                        }
                        out.push(c);
                    }
                    if fault.is_some() {
                        let mut c = scn.clone();
                        if let Op::Own { fault, .. } = &mut c.threads[t][i] {
                            *fault = None;
                        }
                        out.push(c);
                    }
                }
                Op::AsyncGroup { tasks, plan, .. } => {
                    for k in (0..plan.len()).rev() {
                        let mut c = scn.clone();
                        if let Op::AsyncGroup { plan, .. } = &mut c.threads[t][i] {
                            plan.remove(k);
                        }
                        out.push(c);
                    }
                    if tasks.len() > 1 {
                        for k in (0..tasks.len()).rev() {
                            let mut c = scn.clone();
                            if let Op::AsyncGroup { tasks, plan, .. } = &mut c.threads[t][i] {
                                tasks.remove(k);
                                plan.retain(|s| !matches!(s, ExecStep::Poll(j) | ExecStep::Drop(j) if *j as usize == k));
                                for s in plan.iter_mut() {
                                    match s {
                                        ExecStep::Poll(j) | ExecStep::Drop(j) if (*j as usize) > k => *j -= 1,
                                        _ => {}
                                    }
                                }
                            }
                            out.push(c);
                        }
                    }
                }
                _ => {}
            }
        }
    }
    for k in (0..scn.config.specials.len()).rev() {
        if scn.config.specials.len() > 1 {
            let mut c = scn.clone();
            c.config.specials.remove(k);
            out.push(c);
        }
    }
    if scn.config.partial {
        let mut c = scn.clone();
        c.config.partial = false;
        out.push(c);
    }
    if scn.config.nest_seed != 0 {
        let mut c = scn.clone();
        c.config.nest_seed = 0;
        out.push(c);
    }
    if scn.config2.is_some() && scn.prop != "C18" {
        let mut c = scn.clone();
        c.config2 = None;
        out.push(c);
    }
    // schedule: prefer "stay on the current thread"
    if scn.sched.fine {
        if scn.sched.strategy != Strategy::Sticky(95) {
            let mut c = scn.clone();
            c.sched.strategy = Strategy::Sticky(95);
            c.sched.choices.clear();
            out.push(c);
        }
        if scn.sched.sites != crate::sched::ALL_SITES {
            let mut c = scn.clone();
            c.sched.sites = crate::sched::ALL_SITES;
            out.push(c);
        }
    }
    out.into_iter().filter(valid).collect()
}

pub fn same_failure(scn: &Scenario, prop: &str, clause: &str) -> Option<Violation> {
    let checked = props::check(scn);
    if checked.harness_error.is_some() {
        return None;
    }
    checked
        .violations
        .into_iter()
        .find(|v| v.prop == prop && v.clause == clause)
}

pub struct Shrunk {
    pub scenario: Scenario,
    pub violation: Violation,
    pub evaluations: u64,
    pub accepted: u64,
}

pub fn shrink(scn: &Scenario, viol: &Violation, budget: u64) -> Shrunk {
    let mut best = scn.clone();
    let mut best_v = viol.clone();
    let mut evals = 0;
    let mut accepted = 0;
    'outer: loop {
        for cand in candidates(&best) {
            if evals >= budget {
                break 'outer;
            }
            evals += 1;
            // a scheduling-dependent failure must reproduce reliably: require it twice
            if let Some(v) = same_failure(&cand, &viol.prop, &viol.clause) {
                best = cand;
                best_v = v;
                accepted += 1;
                continue 'outer;
            }
        }
        break;
    }
    Shrunk {
        scenario: best,
        violation: best_v,
        evaluations: evals,
        accepted,
    }
}

/// Second phase, for scenarios with more than one simulated thread: replace the seeded strategy by
/// the explicit list of decisions it took, then make that list as short and as uneventful as the
/// failure allows - truncate it (behind its end the running thread keeps running) and turn single
/// decisions into "stay". What is left are the context switches the failure needs.
pub struct SchedMin {
    pub scenario: Scenario,
    pub violation: Violation,
    pub evaluations: u64,
    pub decisions_recorded: usize,
    pub decisions_kept: usize,
    pub forced_switches: usize,
}

pub fn minimise_schedule(scn: &Scenario, viol: &Violation, budget: u64) -> Option<SchedMin> {
    use crate::sched::STAY;
    if scn.threads.len() < 2
        || scn.sched.strategy == Strategy::Free
        || scn.knob("isolated").is_some()
        || scn.knob("miri_seed").is_some()
    {
        return None;
    }
    // the decisions the strategy took (the run is deterministic, so this is the failing run)
    let recorded = if scn.sched.choices.is_empty() || scn.sched.strategy != Strategy::Stay {
        crate::world::run(scn).sched.choices
    } else {
        scn.sched.choices.clone()
    };
    if recorded.is_empty() || recorded.len() > 4000 {
        return None;
    }
    let mut evals = 0u64;
    let mut best = scn.clone();
    best.sched.strategy = Strategy::Stay;
    best.sched.choices = recorded.clone();
    evals += 1;
    let mut best_v = same_failure(&best, &viol.prop, &viol.clause)?;
    // 1. shortest prefix (bisection, then confirmed by the run itself)
    let (mut lo, mut hi) = (0usize, best.sched.choices.len());
    while lo < hi && evals < budget {
        let mid = (lo + hi) / 2;
        let mut c = best.clone();
        c.sched.choices.truncate(mid);
        evals += 1;
        if let Some(v) = same_failure(&c, &viol.prop, &viol.clause) {
            best = c;
            best_v = v;
            hi = mid;
        } else {
            lo = mid + 1;
        }
    }
    // 2. single decisions become "stay", last first
    let mut i = best.sched.choices.len();
    while i > 0 && evals < budget {
        i -= 1;
        if best.sched.choices[i] == STAY {
            continue;
        }
        let mut c = best.clone();
        c.sched.choices[i] = STAY;
        evals += 1;
        if let Some(v) = same_failure(&c, &viol.prop, &viol.clause) {
            best = c;
            best_v = v;
        }
    }
    while best.sched.choices.last() == Some(&STAY) {
        best.sched.choices.pop();
    }
    // must still fail after dropping the trailing "stay"s (they equal the fallback)
    evals += 1;
    let v = same_failure(&best, &viol.prop, &viol.clause)?;
    best_v = v;
    let forced = best.sched.choices.iter().filter(|c| **c != STAY).count();
    Some(SchedMin {
        decisions_recorded: recorded.len(),
        decisions_kept: best.sched.choices.len(),
        forced_switches: forced,
        scenario: best,
        violation: best_v,
        evaluations: evals,
    })
}
