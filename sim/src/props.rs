//! Property registry: for each claimed property the batches it runs, the scenario generator and the
//! check (run the world, apply the property's oracle, measure what the run covered).

use std::collections::BTreeMap;

use crate::ctx::*;
use crate::gen::*;
use crate::oracle::*;
use crate::rng::{hash_str, mix, Rng, Sig};
use crate::spec::*;
use crate::world::{self, RunResult};

#[derive(Clone, Debug, Default, serde::Serialize, serde::Deserialize)]
pub struct RunStats {
    pub ops: u64,
    pub calls: u64,
    pub steps: u64,
    pub switches: u64,
    pub threads: u64,
    pub faults: BTreeMap<String, u64>,
    pub probes: BTreeMap<String, u64>,
    pub nontrivial: bool,
    /// hash identifying (configuration shape, workload shape, interleaving signature, fault set)
    pub shape: u64,
    pub interleaving: u64,
    pub extra_runs: u64,
    /// a written-out rendering of the case, where the scenario itself does not show it
    #[serde(default)]
    pub sample: Option<String>,
}

pub struct Checked {
    pub violations: Vec<Violation>,
    pub stats: RunStats,
    pub harness_error: Option<String>,
}

pub const CLAIMED: &[&str] = &[
    "C01", "C02", "C03", "C04", "C07", "C08", "C09", "C10", "C11", "C12", "C13", "C15", "C16", "C18", "C20",
];

/// (batch name, number of runs) per tier
pub fn batches(prop: &str, tier: &str) -> Vec<(&'static str, u64)> {
    let t = |quick: u64| if tier == "thorough" { quick * 20 } else { quick };
    match prop {
        "C01" | "C02" | "C04" | "C07" => vec![("fault-free", t(120_000)), ("faults", t(80_000))],
        "C03" => vec![("fault-free", t(160_000)), ("user-faults", t(40_000))],
        "C10" => vec![("fine", t(100_000))],
        "C20" => vec![("wiring", 1), ("fault-free", t(150_000)), ("faults", t(250_000))],
        "C11" => vec![("crash", t(64_000)), ("caught-user-panics", t(100_000))],
        "C18" => vec![("permute", t(60_000)), ("reroute", t(40_000)), ("two-mocks", t(40_000)), ("relabel", t(40_000)), ("mixed", t(40_000)), ("cross", t(30_000))],
        "C16" => vec![("fault-free", t(120_000)), ("faults", t(40_000)), ("executor", t(60_000))],
        "C15" => vec![("fault-free", t(120_000)), ("faults", t(40_000)), ("helper-race", t(40_000)), ("fmt-supertraits", t(4_000))],
        "C12" => vec![("fault-free", t(120_000)), ("faults", t(60_000))],
        "C09" => vec![("lifecycle", t(200_000))],
        "C13" => vec![("lending", t(50_000)), ("long-chains", t(150))],
        "C08" => vec![("mock-panics", t(100_000)), ("user-faults", t(60_000))],
        _ => vec![],
    }
}

pub fn classify_mock_panic(msg: &str) -> &'static str {
    const KINDS: &[(&str, &str)] = &[
        ("No mock implementation found", "no_mock_implementation"),
        ("No matching call patterns", "no_matching_pattern"),
        ("Method matched in wrong order", "wrong_order"),
        ("out of range", "ordered_out_of_range"),
        ("inputs didn't match", "ordered_inputs_mismatch"),
        ("Cannot return value more than once", "single_use_exhausted"),
        ("Explicit panic", "explicit_panic"),
        ("cannot be unmocked", "cannot_unmock"),
        ("default implementation delegation", "no_default_impl"),
        ("No output available", "no_output"),
        ("No function supplied", "no_matcher_function"),
        ("clones still alive", "live_clone"),
        ("different thread", "wrong_thread"),
        ("cloned instance", "clone_misuse"),
    ];
    for (needle, kind) in KINDS {
        if msg.contains(needle) {
            return kind;
        }
    }
    "other_mock_panic"
}

pub fn base_stats(scn: &Scenario, res: &RunResult) -> RunStats {
    let mut st = RunStats::default();
    st.ops = res.log.ops.len() as u64;
    st.calls = res.log.calls.len() as u64;
    st.steps = res.sched.steps + res.log.calls.len() as u64;
    st.switches = res.sched.switches;
    st.threads = scn.threads.len() as u64;
    st.interleaving = res.sched.signature;
    let mut fault_set = 0u64;
    if scn.knob("max_depth").is_some() {
        let deepest = res.log.calls.iter().filter(|c| c.parent.is_some()).count();
        if deepest >= 100 {
            *st.probes.entry("recursion_through_the_mock_100_levels_or_more".to_string()).or_default() += 1;
        }
    }
    for (t, ops) in scn.threads.iter().enumerate() {
        for (i, op) in ops.iter().enumerate() {
            if let Op::Call { fault: Some(Fault::WhileUnwinding), .. } = op {
                if res.log.calls.iter().any(|c| c.op == (t as u8, i as u16)) {
                    *st.faults.entry("call_made_while_unwinding".to_string()).or_default() += 1;
                }
            }
        }
    }
    for c in &res.log.calls {
        match &c.outcome {
            Some(Outcome::UserPanic(f)) => {
                let k = match f {
                    UserFault::Matcher { .. } => "matcher_panic",
                    UserFault::Prog { .. } => "user_program_panic",
                    UserFault::Clone => "clone_panic",
                    UserFault::Debug => "debug_panic",
                    UserFault::Body => "body_panic",
                };
                // count the fault where it originated (not each frame it propagated through)
                if c.parent.is_none() || matches!(f, UserFault::Matcher { .. }) {
                    *st.faults.entry(k.to_string()).or_default() += 1;
                }
                fault_set |= 1 << (hash_str(k) % 60);
            }
            Some(Outcome::MockPanic(msg)) => {
                if c.prog.is_none() {
                    let k = classify_mock_panic(msg);
                    *st.faults.entry(format!("mock:{k}")).or_default() += 1;
                    fault_set |= 1 << (hash_str(k) % 60);
                }
            }
            _ => {}
        }
    }
    for (_, end) in &res.log.thread_ends {
        if !matches!(end, OpResult::Done) {
            *st.faults.entry("thread_death".into()).or_default() += 1;
        }
    }
    // shape: configuration shape + workload shape + interleaving + fault set
    let mut sig = Sig::new();
    sig.add(scn.config.partial as u64);
    for c in &scn.config.clauses {
        sig.add(c.m as u64);
        sig.add(c.form as u64);
        for p in &c.patterns {
            sig.add(p.pred as u64);
            for s in &p.segs {
                sig.add_str(&format!("{}{:?}", s.resp.name(), s.quant));
            }
        }
    }
    for t in &scn.threads {
        sig.add(0xffff);
        for op in t {
            match op {
                Op::Call { slot, m, x, y, .. } => {
                    sig.add(((*slot as u64) << 24) | ((*m as u64) << 8) | ((*x as u64) << 4) | *y as u64)
                }
                other => sig.add_str(&format!("{other:?}")),
            }
        }
    }
    sig.add(res.sched.signature);
    sig.add(fault_set);
    st.shape = sig.0;
    let executed = res.log.ops.iter().filter(|o| !matches!(o.result, OpResult::Skipped(_))).count();
    st.nontrivial = executed >= 2 && !res.log.calls.is_empty();
    st
}

fn probe(st: &mut RunStats, name: &str, hit: bool) {
    if hit {
        *st.probes.entry(name.to_string()).or_default() += 1;
    }
}

pub fn generate(prop: &str, base_seed: u64, batch: &str, run: u64) -> Scenario {
    let seed = mix(&[base_seed, hash_str(prop), hash_str(batch), run]);
    let mut rng = Rng::new(seed);
    match prop {
        "C01" | "C02" | "C03" | "C04" | "C07" => gen_coarse(prop, base_seed, batch, run, &mut rng),
        "C10" => crate::fine::gen_c10(base_seed, batch, run, &mut rng),
        "C20" => Scenario {
            prop: "C20".into(),
            base_seed,
            run,
            batch: batch.to_string(),
            config: Config::default(),
            config2: None,
            threads: vec![],
            sched: SchedSpec { fine: false, strategy: Strategy::RoundRobin, seed: 0, sites: 0, choices: vec![] },
            knobs: vec![("io_seed".into(), (rng.next() >> 1) as i64), ("group".into(), (run % 13) as i64)],
        },
        "C11" => crate::crash::gen_c11(base_seed, batch, run, &mut rng),
        "C18" if batch == "cross" => Scenario {
            prop: prop.to_string(),
            base_seed,
            run,
            batch: batch.to_string(),
            config: Config::default(),
            config2: None,
            threads: vec![],
            sched: SchedSpec { fine: false, strategy: Strategy::RoundRobin, seed: 0, sites: 0, choices: vec![] },
            knobs: vec![("cross_seed".into(), (rng.next() >> 1) as i64)],
        },
        "C18" => crate::twin::gen_c18(base_seed, batch, run, &mut rng),
        "C16" => crate::twin::gen_c16(base_seed, batch, run, &mut rng),
        "C15" if batch == "fmt-supertraits" => Scenario {
            prop: "C15".into(),
            base_seed,
            run,
            batch: batch.to_string(),
            config: Config::default(),
            config2: None,
            threads: vec![],
            sched: SchedSpec { fine: false, strategy: Strategy::RoundRobin, seed: 0, sites: 0, choices: vec![] },
            knobs: vec![("fmt_seed".into(), (rng.next() >> 1) as i64)],
        },
        "C15" => crate::twin::gen_c15(base_seed, batch, run, &mut rng),
        "C12" => crate::owning::gen_c12(base_seed, batch, run, &mut rng),
        "C09" => crate::lifeworld::gen_c09(base_seed, batch, run, &mut rng),
        "C13" => crate::lifeworld::gen_c13(base_seed, batch, run, &mut rng),
        "C08" => crate::fine::gen_c08(base_seed, batch, run, &mut rng),
        other => panic!("no generator for {other}"),
    }
}

/// C01, part of the faults batch: a method whose argument's `Debug` panics when anybody renders it,
/// with overlapping patterns written with the real `matching!` macro. Every call is accepted by some
/// pattern, so no error is ever reported and nobody has a reason to render the argument: patterns
/// that reject it must not influence the answer - not even by formatting it.
fn gen_c01_debug_silent(base_seed: u64, batch: &str, run: u64, rng: &mut Rng) -> Scenario {
    let n = rng.range(2, 4);
    let mut clauses = vec![];
    let mut union = 0u32;
    for _ in 0..n {
        // (singletons are written as struct patterns)
        let pred = if rng.chance(1, 2) { 1u32 << rng.below(4) } else { (rng.next() as u32) & 0xf };
        union |= pred;
        clauses.push(ClauseSpec {
            m: M::D0,
            form: if rng.chance(1, 2) { Form::EachCall } else { Form::Stub },
            patterns: vec![PatternSpec { pred, has_matcher: true, macro_form: true, segs: vec![Seg { resp: Resp::Returns, quant: Quant::Unq }] }],
        });
    }
    if union == 0 {
        clauses[0].patterns[0].pred = 0xf;
        union = 0xf;
    }
    let config = Config { partial: false, clauses, nest_seed: rng.next() | 1, ..Default::default() };
    let accepted: Vec<u8> = (0..4u8).filter(|x| union >> x & 1 == 1 && *x != 3).collect();
    let mut ops = vec![];
    if !accepted.is_empty() {
        for _ in 0..rng.range(1, 6) {
            ops.push(Op::Call { slot: 0, m: M::D0, x: *rng.pick(&accepted), y: 0, catch: true, fault: Some(Fault::DebugPanic), keep: false });
        }
    }
    ops.push(Op::Verify { slot: 0 });
    Scenario {
        prop: "C01".into(),
        base_seed,
        run,
        batch: batch.into(),
        config,
        config2: None,
        threads: vec![ops],
        sched: gen_sched(rng, false),
        knobs: vec![("prelude".into(), 0), ("debug_silent".into(), 1)],
    }
}

/// C07: one method with 66-80 patterns written with the real `matching!` macro, none of which accepts
/// one particular argument: the call with that argument has no applicable pattern and the mock has to
/// say so (its report collects a mismatch from every one of the patterns).
fn gen_c07_very_wide(base_seed: u64, batch: &str, run: u64, rng: &mut Rng) -> Scenario {
    let m = *rng.pick(&[M::A0, M::A1, M::B3]);
    let hole = rng.below(4) as u32;
    let n = rng.range(66, 80);
    let mut clauses = vec![];
    for _ in 0..n {
        let pred = ((rng.next() as u32) & 0xf) & !(1 << hole);
        clauses.push(ClauseSpec {
            m,
            form: Form::EachCall,
            patterns: vec![PatternSpec { pred, has_matcher: true, macro_form: true, segs: vec![Seg { resp: Resp::Returns, quant: Quant::Unq }] }],
        });
    }
    let mut config = gen_config(rng, &CfgOpts { max_methods: 1, pool: vec![M::Z0], ..CfgOpts::default() });
    config.clauses = clauses;
    config.partial = false;
    config.nest_seed = if rng.chance(1, 2) { 0 } else { rng.next() | 1 };
    let mut ops = vec![];
    for _ in 0..rng.range(1, 4) {
        let x = if rng.chance(1, 2) { hole as u8 } else { rng.below(4) as u8 };
        ops.push(Op::Call { slot: 0, m, x, y: 0, catch: true, fault: None, keep: false });
    }
    ops.push(Op::Verify { slot: 0 });
    Scenario {
        prop: "C07".into(),
        base_seed,
        run,
        batch: batch.into(),
        config,
        config2: None,
        threads: vec![ops],
        sched: gen_sched(rng, false),
        knobs: vec![("prelude".into(), 0)],
    }
}

/// C02: one pattern whose first segment is matched 65 535 .. 70 000 times before the chain moves on.
fn gen_c02_storm(base_seed: u64, batch: &str, run: u64, rng: &mut Rng) -> Scenario {
    let n1 = *rng.pick(&[65_535u32, 65_536, 65_537, 70_000]);
    let n2 = rng.range(1, 3) as u32;
    let form = if rng.chance(1, 2) { Form::EachCall } else { Form::NextCall };
    // (an ordered clause is exact by nature)
    let open_ended = form == Form::EachCall && rng.chance(1, 2);
    let segs = vec![
        Seg { resp: Resp::Returns, quant: Quant::N(n1) },
        Seg { resp: Resp::Returns, quant: if open_ended { Quant::Unq } else { Quant::N(n2) } },
    ];
    let config = Config {
        partial: false,
        clauses: vec![ClauseSpec { m: M::A1, form, patterns: vec![PatternSpec { pred: 0xf, has_matcher: true, macro_form: false, segs }] }],
        nest_seed: 0,
        ..Default::default()
    };
    let n = n1 + if open_ended { n2 + 2 } else { n2 };
    Scenario {
        prop: "C02".into(),
        base_seed,
        run,
        batch: batch.into(),
        config,
        config2: None,
        threads: vec![vec![Op::CallStorm { slot: 0, m: M::A1, x: rng.below(4) as u8, n }, Op::Verify { slot: 0 }]],
        sched: gen_sched(rng, false),
        knobs: vec![("prelude".into(), 0)],
    }
}

/// the oracle for a storm: the run-length encoding of the answers is the chain itself
fn check_c02_storm(scn: &Scenario, res: &RunResult) -> Vec<Violation> {
    let mut out = vec![];
    let Some(Op::CallStorm { n, .. }) = scn.threads.first().and_then(|t| t.first()) else { return out };
    let segs = &scn.config.clauses[0].patterns[0].segs;
    let (n1, second) = match (segs[0].quant, segs[1].quant) {
        (Quant::N(a), Quant::N(b)) => (a, b),
        (Quant::N(a), _) => (a, *n - a),
        _ => return out,
    };
    let token = |seg: u64| format!("{:#x}", VAL_RET | seg);
    let expected = vec![(token(0), n1), (token(1), second)];
    let got: Vec<(String, u32)> = match res.log.ops.first().map(|o| &o.result) {
        Some(OpResult::Info(s)) => serde_json::from_str(s).unwrap_or_default(),
        other => {
            out.push(v("C02", "kth-match-segment", "storm", format!("the storm of {n} calls did not run: {other:?}")));
            return out;
        }
    };
    if got != expected {
        out.push(v(
            "C02",
            "kth-match-segment",
            "storm",
            format!("{n} matches of one pattern whose chain is {n1} x first response, then {second} x second: the answers came back as runs {got:?}, expected {expected:?}"),
        ));
    }
    // and the verdict: every count is met
    if let Some(o) = res.log.ops.get(1) {
        if !matches!(o.result, OpResult::Quiet) {
            out.push(v("C02", "kth-match-segment", "storm-verdict", format!("after exactly the expected number of matches verification said {:?}", o.result)));
        }
    }
    out
}

fn gen_coarse(prop: &str, base_seed: u64, batch: &str, run: u64, rng: &mut Rng) -> Scenario {
    if prop == "C02" && batch == "fault-free" && rng.chance(1, 2500) {
        return gen_c02_storm(base_seed, batch, run, rng);
    }
    if prop == "C07" && batch == "fault-free" && rng.chance(1, 60) {
        return gen_c07_very_wide(base_seed, batch, run, rng);
    }
    if prop == "C01" && batch == "faults" && rng.chance(1, 10) {
        return gen_c01_debug_silent(base_seed, batch, run, rng);
    }
    let mut co = CfgOpts::default();
    let mut ho = HistOpts::default();
    match prop {
        "C01" => {
            co.ordered_pct = 8;
            co.max_segs = 2;
            // wide mocks: more than twenty patterns of six or seven interleaved methods
            if rng.chance(1, 12) {
                co.min_methods = 6;
                co.max_methods = 7;
                co.min_patterns = 4;
                co.max_patterns = if rng.chance(1, 3) { 12 } else { 6 };
                co.ordered_pct = 0;
                ho.max_calls = 16;
                // one in three of them: nine to twelve methods (past the point where a small-table
                // representation of the method table would end), clause groups interleaved
                if rng.chance(1, 3) {
                    co.pool.extend([M::GenU8, M::GenU16, M::GmU8, M::GmU16, M::GiU8, M::GiU16, M::GnU8, M::GnU16]);
                    ho.pool.extend([M::GenU8, M::GenU16, M::GmU8, M::GmU16, M::GiU8, M::GiU16, M::GnU8, M::GnU16]);
                    co.min_methods = 9;
                    co.max_methods = 12;
                    co.min_patterns = 2;
                    co.max_patterns = 4;
                }
            }
        }
        "C02" => {
            co.ordered_pct = 30;
            co.max_methods = 3;
            co.max_patterns = 3;
            ho.max_calls = 15;
        }
        "C03" => {
            // wide mocks with few calls: dozens of unmet expectations at once
            if rng.chance(1, 15) {
                co.min_methods = 6;
                co.max_methods = 7;
                co.min_patterns = 4;
                co.max_patterns = if rng.chance(1, 2) { 12 } else { 6 };
                ho.max_calls = 6;
                if rng.chance(1, 3) {
                    // nine to twelve methods
                    co.min_methods = 9;
                    co.max_methods = 12;
                    co.min_patterns = 2;
                    co.max_patterns = 4;
                    ho.max_calls = 12;
                }
            }
            co.ordered_pct = 25;
            co.resp_weights = [50, 6, 2, 30, 0, 6, 6];
            ho.avoid_mock_panics = true;
            ho.max_calls = 15;
            ho.finish_weights = [50, 30, 20];
            // generic instantiations share one Trait::method path
            co.pool.extend([M::GenU8, M::GenU16, M::GmU8, M::GmU16, M::GiU8, M::GiU16, M::GnU8, M::GnU16]);
            ho.pool.extend([M::GenU8, M::GenU16, M::GmU8, M::GmU16, M::GiU8, M::GiU16, M::GnU8, M::GnU16]);
        }
        "C04" => {
            co.ordered_pct = 75;
            co.max_methods = 3;
            co.max_patterns = 3;
            ho.max_threads = 2;
        }
        "C07" => {
            co.ordered_pct = 15;
            co.max_methods = 3;
            co.max_patterns = 3;
            ho.max_threads = 2;
            ho.max_calls = 8;
            ho.steer_bounds = false;
            // the trait with a receiver-less provided fn in front of its unmockable methods
            co.pool.extend([M::S0, M::S1, M::S2, M::GpU8, M::GmU8]);
            ho.pool.extend([M::S0, M::S1, M::S2, M::GpU8, M::GpU16, M::GmU8, M::N0]);
        }
        _ => {}
    }
    // scale runs: few patterns, counts around 8 .. 300, chains of up to eight segments, hundreds of calls
    if matches!(prop, "C02" | "C03" | "C04") && rng.chance(1, 60) {
        co.big = true;
        co.min_methods = 1;
        co.min_patterns = 1;
        co.max_methods = 2;
        co.max_patterns = 2;
        co.max_segs = if rng.chance(1, 2) { 12 } else { 3 };
        co.nested_calls = false;
        ho.max_calls = 500;
        ho.max_threads = 2;
    }
    // swarm: vary knobs per run
    if rng.chance(1, 4) {
        co.nested_calls = false;
    }
    if rng.chance(1, 3) {
        co.zero_counts = false;
    }
    if batch == "faults" || batch == "user-faults" {
        ho.fault_every = *rng.pick(&[3u64, 6, 6, 10]);
    }
    let mut config = gen_config(rng, &co);
    if prop == "C03" && rng.chance(1, 5) {
        // a guard at the end of a chain: `.then().panics(..)` after an exact segment; the history is
        // steered away from reaching it, the trailing then() still asks for one more match
        let mut spots = vec![];
        for (ci, c) in config.clauses.iter().enumerate() {
            // (the instantiations of generic methods are built through `with_types`: one segment only)
            let generic = matches!(c.m, M::GenU8 | M::GenU16 | M::GmU8 | M::GmU16 | M::GpU8 | M::GpU16 | M::GiU8 | M::GiU16 | M::GnU8 | M::GnU16);
            if matches!(c.form, crate::spec::Form::NextCall) || generic {
                continue;
            }
            for (pi, p) in c.patterns.iter().enumerate() {
                if matches!(p.segs.last().map(|s| s.quant), Some(Quant::Once) | Some(Quant::N(1..))) {
                    spots.push((ci, pi));
                }
            }
        }
        if !spots.is_empty() {
            let (ci, pi) = spots[rng.usize(spots.len())];
            config.clauses[ci].patterns[pi].segs.push(Seg { resp: Resp::Panics, quant: Quant::Unq });
        }
    }
    if prop == "C07" && rng.chance(1, 6) {
        // a hand-written matcher that registers no function: reaching it is a loud error
        let unordered: Vec<usize> = (0..config.clauses.len())
            .filter(|i| !matches!(config.clauses[*i].form, crate::spec::Form::NextCall))
            .collect();
        if !unordered.is_empty() {
            let ci = unordered[rng.usize(unordered.len())];
            let np = config.clauses[ci].patterns.len();
            let p = &mut config.clauses[ci].patterns[rng.usize(np)];
            p.has_matcher = false;
            p.macro_form = false;
        }
    }
    let (mut threads, prelude) = gen_history(rng, &config, &ho);
    // counts beyond 32 bits: one exact or at-least count of the mock becomes 2^32 + itself (after the
    // history was drawn: the calls still aim at the small count, which is what a wrapped count would be)
    if matches!(prop, "C02" | "C03" | "C04") && batch == "fault-free" && cfg!(target_pointer_width = "64") && rng.chance(1, 150) {
        let mut spots = vec![];
        for (ci, c) in config.clauses.iter().enumerate() {
            for (pi, p) in c.patterns.iter().enumerate() {
                for (si, sg) in p.segs.iter().enumerate() {
                    if matches!(sg.quant, Quant::N(_) | Quant::AtLeast(_)) {
                        spots.push((ci, pi, si));
                    }
                }
            }
        }
        if !spots.is_empty() {
            let (ci, pi, si) = spots[rng.usize(spots.len())];
            let q = &mut config.clauses[ci].patterns[pi].segs[si].quant;
            *q = match *q {
                Quant::N(n) => Quant::N(crate::model::HUGE + n.min(1000)),
                Quant::AtLeast(n) => Quant::AtLeast(crate::model::HUGE + n.min(1000)),
                other => other,
            };
        }
    }
    if prop == "C03" && batch == "user-faults" {
        // some threads keep their clone on their own stack and die of an uncaught user panic: the
        // clone is dropped while unwinding; what the original reports still follows the counts
        for t in 1..threads.len() {
            let only_shared_receivers = threads[t].iter().all(|op| match op {
                Op::Call { m, .. } => m.info().recv == crate::spec::Recv::Ref,
                _ => true,
            });
            if !only_shared_receivers || !rng.chance(1, 3) {
                continue;
            }
            threads[t].retain(|op| !matches!(op, Op::Drop { slot } if *slot == t as u8));
            threads[t].insert(0, Op::Hold { slot: t as u8 });
            for op in threads[t].iter_mut() {
                if let Op::Call { slot, catch, fault, .. } = op {
                    if *slot == t as u8 {
                        *slot = 0;
                    }
                    if fault.is_some() && rng.chance(2, 3) {
                        *catch = false;
                    }
                }
            }
        }
    }
    Scenario {
        prop: prop.to_string(),
        base_seed,
        run,
        batch: batch.to_string(),
        config,
        config2: None,
        threads,
        sched: gen_sched(rng, false),
        knobs: vec![("prelude".into(), prelude as i64)],
    }
}

/// Run the check in a child process: used where the failure mode is the death of the process
/// (stack overflow, double panic). The child's death *is* the observation.
pub fn check_isolated(scn: &Scenario) -> Checked {
    use std::io::Write;
    use std::process::{Command, Stdio};
    // (if the binary was replaced while we run, the kernel reports the old path with a suffix)
    let mut exe = std::env::current_exe().expect("exe");
    if !exe.exists() {
        if let Some(s) = exe.to_str().and_then(|s| s.strip_suffix(" (deleted)")) {
            exe = std::path::PathBuf::from(s);
        }
    }
    // fault injection on the process environment: a standard error stream that rejects every write
    let stderr = match (scn.knob("stderr_full"), std::fs::OpenOptions::new().write(true).open("/dev/full")) {
        (Some(1), Ok(f)) => Stdio::from(f),
        _ => Stdio::piped(),
    };
    let mut child = match Command::new(exe)
        .arg("isolated")
        .stdin(Stdio::piped())
        .stdout(Stdio::piped())
        .stderr(stderr)
        .spawn()
    {
        Ok(c) => c,
        Err(e) => return Checked { violations: vec![], stats: RunStats::default(), harness_error: Some(format!("cannot spawn child: {e}")) },
    };
    let input = serde_json::to_vec(scn).expect("scenario json");
    let mut stdin = child.stdin.take().unwrap();
    let writer = std::thread::spawn(move || {
        let _ = stdin.write_all(&input);
    });
    let out = child.wait_with_output();
    let _ = writer.join();
    let out = match out {
        Ok(o) => o,
        Err(e) => return Checked { violations: vec![], stats: RunStats::default(), harness_error: Some(format!("child wait failed: {e}")) },
    };
    let stdout = String::from_utf8_lossy(&out.stdout);
    if let Some(line) = stdout.lines().rev().find(|l| l.contains("\"isolated_result\":true")) {
        if let Ok(val) = serde_json::from_str::<serde_json::Value>(line) {
            let violations: Vec<Violation> = serde_json::from_value(val["violations"].clone()).unwrap_or_default();
            let stats: RunStats = serde_json::from_value(val["stats"].clone()).unwrap_or_default();
            let harness_error = val["harness_error"].as_str().map(|s| s.to_string());
            return Checked { violations, stats, harness_error };
        }
    }
    // no result: the process died
    let stderr = String::from_utf8_lossy(&out.stderr);
    let tail: String = stderr.lines().rev().take(4).collect::<Vec<_>>().into_iter().rev().collect::<Vec<_>>().join(" | ");
    let mut stats = RunStats::default();
    stats.nontrivial = true;
    *stats.faults.entry("process_death".into()).or_default() += 1;
    Checked {
        violations: vec![crate::oracle::v(
            &scn.prop,
            "process-aborted",
            "abort",
            format!("the process running the scenario died ({}) instead of finishing: {}", out.status, tail),
        )],
        stats,
        harness_error: None,
    }
}

pub fn main_isolated() -> i32 {
    std::panic::set_hook(Box::new(|_| {}));
    let mut input = String::new();
    use std::io::Read;
    if std::io::stdin().read_to_string(&mut input).is_err() {
        return 2;
    }
    let scn: Scenario = match serde_json::from_str(&input) {
        Ok(s) => s,
        Err(_) => return 2,
    };
    let c = check_in_process(&scn);
    println!(
        "{}",
        serde_json::json!({"isolated_result": true, "violations": c.violations, "stats": c.stats, "harness_error": c.harness_error})
    );
    0
}

pub fn check(scn: &Scenario) -> Checked {
    if scn.knob("isolated").unwrap_or(0) != 0 && std::env::var("SIM_ISOLATED_CHILD").is_err() {
        return check_isolated(scn);
    }
    check_in_process(scn)
}

pub fn check_in_process(scn: &Scenario) -> Checked {
    match scn.prop.as_str() {
        "C01" | "C02" | "C03" | "C04" | "C07" => check_coarse(scn),
        "C10" => crate::fine::check_c10(scn),
        #[cfg(feature = "stdworld")]
        "C20" => crate::ioworld::check_c20(scn),
        "C11" => crate::crash::check_c11(scn),
        "C18" if scn.batch == "cross" => crate::crossworld::check_cross(scn),
        "C18" => crate::twin::check_c18(scn),
        "C16" => crate::twin::check_c16(scn),
        #[cfg(feature = "stdworld")]
        "C15" if scn.batch == "fmt-supertraits" => crate::twin::check_c15_fmt(scn),
        "C15" => crate::twin::check_c15(scn),
        "C12" => crate::owning::check_c12(scn),
        "C09" => crate::lifeworld::check_c09(scn),
        "C13" => crate::lifeworld::check_c13(scn),
        "C08" => crate::fine::check_c08(scn),
        other => Checked {
            violations: vec![],
            stats: RunStats::default(),
            harness_error: Some(format!("no check for {other}")),
        },
    }
}

fn run_error(res: &RunResult) -> Option<String> {
    if res.timed_out {
        Some("run timed out (watchdog)".into())
    } else if res.sched.deadlock {
        Some("simulated threads deadlocked".into())
    } else {
        None
    }
}

fn check_coarse(scn: &Scenario) -> Checked {
    let res = world::run(scn);
    let mut stats = base_stats(scn, &res);
    if let Some(e) = run_error(&res) {
        return Checked { violations: vec![], stats, harness_error: Some(e) };
    }
    if let Some(e) = &res.build_error {
        // the generator only emits configurations that the reference model says are consistent
        // (one ordering mode per method, every pattern has a response, exact counts before then()):
        // the statements quantify over all of them, so a mock that cannot even be built from one
        // cannot answer its calls as stated
        return Checked {
            violations: vec![crate::oracle::v(
                &scn.prop,
                "consistent-configuration-is-constructible",
                "Unimock::new",
                format!("Unimock::new panicked on a consistent clause set: {e}"),
            )],
            stats,
            harness_error: None,
        };
    }
    let violations = match scn.prop.as_str() {
        "C01" => check_c01(scn, &res),
        "C02" if matches!(scn.threads.first().and_then(|t| t.first()), Some(Op::CallStorm { .. })) => check_c02_storm(scn, &res),
        "C02" => check_c02(scn, &res),
        "C03" => check_c03(scn, &res),
        "C04" => check_c04(scn, &res),
        "C07" => check_c07(scn, &res),
        _ => vec![],
    };
    // rare-condition probes
    let flat = scn.config.flatten();
    let mut over_exact = false;
    let mut after_deviation = false;
    let mut deviated = false;
    let mut overlap_hit = false;
    let mut nested = false;
    let mut via_clone = false;
    for c in &res.log.calls {
        nested |= c.parent.is_some();
        if let (Some(pre), true) = (&c.pre, flat.mentioned(c.m)) {
            if flat.ordered(c.m) {
                if deviated {
                    after_deviation = true;
                }
                if matches!(c.outcome, Some(Outcome::MockPanic(_))) && c.prog.is_none() {
                    deviated = true;
                }
            } else {
                let acc: Vec<_> = flat
                    .of_method(c.m)
                    .into_iter()
                    .filter(|p| crate::model::accepts(p, c.x, c.y))
                    .collect();
                if acc.len() >= 2 {
                    overlap_hit = true;
                }
                if let Some(p) = acc.first() {
                    let e = crate::model::expectation(p);
                    let k = pre.counts_of(c.m).and_then(|v| v.get(p.index).copied()).unwrap_or(0);
                    if !e.open_ended() && k >= e.minimum {
                        over_exact = true;
                    }
                }
            }
        }
    }
    for t in &scn.threads {
        for op in t {
            if let Op::Call { slot, .. } = op {
                via_clone |= *slot != 0;
            }
        }
    }
    probe(&mut stats, "exact_pattern_over_matched", over_exact);
    probe(&mut stats, "ordered_call_after_first_deviation", after_deviation);
    probe(&mut stats, "call_accepted_by_two_or_more_patterns", overlap_hit);
    probe(&mut stats, "nested_call_from_user_code", nested);
    probe(&mut stats, "call_routed_through_clone", via_clone);
    probe(&mut stats, "multi_threaded_history", scn.threads.len() > 1);
    probe(&mut stats, "partial_mock", scn.config.partial);
    if scn.prop == "C03" {
        let finals = final_ops(scn, &res);
        let clean = !res.log.calls.iter().any(|c| matches!(c.outcome, Some(Outcome::MockPanic(_))));
        for (o, _) in &finals {
            if let (Some(pre), true) = (&o.pre, clean) {
                let (p, m) = unmet(&flat, pre);
                probe(&mut stats, "verdict_checked", true);
                probe(&mut stats, "verdict_fail_expected", !p.is_empty() || !m.is_empty());
                probe(&mut stats, "two_or_more_unmet_at_once", p.len() + m.len() >= 2);
                for fp in &flat.patterns {
                    let e = crate::model::expectation(fp);
                    let cnt = pre.counts_of(fp.m).and_then(|v| v.get(fp.index).copied()).unwrap_or(0);
                    probe(&mut stats, "count_one_below_bound", cnt + 1 == e.lower_bound());
                    probe(&mut stats, "count_at_bound", cnt == e.lower_bound());
                    probe(&mut stats, "count_one_above_bound", cnt == e.lower_bound() + 1);
                }
            }
        }
        stats.nontrivial &= clean && !finals.is_empty();
    }
    Checked { violations, stats, harness_error: None }
}

/// A compact, human-readable rendering of a scenario for the evidence samples.
pub fn sample_of(scn: &Scenario) -> serde_json::Value {
    serde_json::json!({
        "run": scn.run,
        "batch": scn.batch,
        "partial": scn.config.partial,
        "clauses": scn.config.clauses.iter().map(|c| format!("{:?}.{:?} {}", c.m, c.form,
            c.patterns.iter().map(|p| format!("pred={:#x} chain=[{}]", p.pred,
                p.segs.iter().map(|s| format!("{}x{:?}", s.resp.name(), s.quant)).collect::<Vec<_>>().join(" then "))).collect::<Vec<_>>().join(" | "))).collect::<Vec<_>>(),
        "threads": scn.threads.iter().map(|t| t.iter().map(|op| match op {
            Op::Call { slot, m, x, y, fault, .. } => format!("call[{slot}] {:?}({x},{y}){}", m, fault.map(|f| format!(" fault={f:?}")).unwrap_or_default()),
            other => format!("{other:?}"),
        }).collect::<Vec<_>>()).collect::<Vec<_>>(),
        "schedule": format!("{:?} seed={} fine={}", scn.sched.strategy, scn.sched.seed, scn.sched.fine),
    })
}
