//! I/O script world (C20): the bundled `unimock::mock::*` impls, with their *required* methods
//! replaying a seeded script (chunk sizes, short reads/writes, zero-length, Interrupted, WouldBlock,
//! other errors, EOF, invalid UTF-8, Pending with/without wake), are driven through the upstream
//! *provided* methods next to a plain struct implementing the same upstream trait from the same
//! script. Results, buffers and the exact sequence of required-method calls must agree.

#![cfg(feature = "stdworld")]

use std::io::{self, BufRead, IoSlice, IoSliceMut, Read, Seek, SeekFrom, Write};
use std::pin::Pin;
use std::sync::{Arc, Mutex};
use std::task::{Context, Poll};

use unimock::mock::core::{fmt::DisplayMock, hash::HasherMock};
use unimock::mock::embedded_hal_1 as ehm;
use unimock::mock::std::io::{BufReadMock, ReadMock, SeekMock, WriteMock};
use unimock::*;

use crate::oracle::{v, Violation};
use crate::props::{Checked, RunStats};
use crate::rng::Rng;
use crate::spec::Scenario;

#[derive(Clone, Copy, Debug, PartialEq)]
pub enum Ev {
    N(usize),
    Interrupted,
    WouldBlock,
    Other,
    Eof,
    Pending(bool),
}

static DATA: &[u8] = b"alpha beta\ngamma\n\ndelta epsilon zeta eta theta\niota kappa\xff\xfelambda\nmu nu xi omicron pi rho sigma tau\n";

#[derive(Clone, Debug)]
pub struct Script {
    evs: Vec<Ev>,
    pos: usize,
    data_pos: usize,
    pub log: Vec<String>,
    wakes: u32,
    flush_fails: bool,
    state: u8,
}

fn ioerr(e: Ev) -> io::Error {
    match e {
        Ev::Interrupted => io::Error::from(io::ErrorKind::Interrupted),
        Ev::WouldBlock => io::Error::from(io::ErrorKind::WouldBlock),
        _ => io::Error::new(io::ErrorKind::Other, "scripted"),
    }
}

impl Script {
    fn new(evs: Vec<Ev>, flush_fails: bool, data_pos: usize) -> Self {
        Self { evs, pos: 0, data_pos, log: vec![], wakes: 0, flush_fails, state: 0 }
    }
    fn next(&mut self) -> Option<Ev> {
        let e = self.evs.get(self.pos).copied();
        if e.is_some() {
            self.pos += 1;
        }
        e
    }
    fn on_write(&mut self, buf: &[u8]) -> io::Result<usize> {
        self.log.push(format!("write {:?}", buf));
        match self.next() {
            Some(Ev::N(n)) => Ok(n.min(buf.len())),
            Some(Ev::Eof) => Ok(0),
            Some(Ev::Pending(_)) | None => Ok(buf.len()),
            Some(e) => Err(ioerr(e)),
        }
    }
    fn on_flush(&mut self) -> io::Result<()> {
        self.log.push("flush".into());
        if self.flush_fails {
            Err(ioerr(Ev::Other))
        } else {
            Ok(())
        }
    }
    fn on_read(&mut self, buf: &mut [u8]) -> io::Result<usize> {
        self.log.push(format!("read {}", buf.len()));
        match self.next() {
            Some(Ev::N(n)) => {
                let avail = &DATA[self.data_pos.min(DATA.len())..];
                let k = n.min(buf.len()).min(avail.len());
                buf[..k].copy_from_slice(&avail[..k]);
                self.data_pos += k;
                Ok(k)
            }
            Some(Ev::Eof) | Some(Ev::Pending(_)) | None => Ok(0),
            Some(e) => Err(ioerr(e)),
        }
    }
    fn on_fill_buf(&mut self) -> io::Result<&'static [u8]> {
        self.log.push("fill_buf".into());
        match self.next() {
            Some(Ev::N(n)) => {
                let avail = &DATA[self.data_pos.min(DATA.len())..];
                Ok(&avail[..n.min(avail.len())])
            }
            Some(Ev::Eof) | Some(Ev::Pending(_)) | None => Ok(&[]),
            Some(e) => Err(ioerr(e)),
        }
    }
    fn on_consume(&mut self, amt: usize) {
        self.log.push(format!("consume {amt}"));
        self.data_pos += amt;
    }
    fn on_seek(&mut self, pos: SeekFrom) -> io::Result<u64> {
        self.log.push(format!("seek {pos:?}"));
        match self.next() {
            Some(Ev::N(n)) => Ok(n as u64),
            Some(Ev::Other) => Err(ioerr(Ev::Other)),
            _ => Ok(7),
        }
    }
    fn on_hash_write(&mut self, bytes: &[u8]) {
        self.log.push(format!("hash.write {bytes:?}"));
    }
    fn on_unit(&mut self, what: String) -> bool {
        // generic required method of the embedded-hal traits: Ok / Err from the script
        self.log.push(what);
        !matches!(self.next(), Some(Ev::Other))
    }
}

type Shared = Arc<Mutex<Script>>;

fn sh(s: &Shared) -> std::sync::MutexGuard<'_, Script> {
    s.lock().unwrap_or_else(|p| p.into_inner())
}

// ---------------------------------------------------------------------------------------------
// plain-struct references

struct Plain(Script);

impl Write for Plain {
    fn write(&mut self, buf: &[u8]) -> io::Result<usize> {
        self.0.on_write(buf)
    }
    fn flush(&mut self) -> io::Result<()> {
        self.0.on_flush()
    }
}
impl Read for Plain {
    fn read(&mut self, buf: &mut [u8]) -> io::Result<usize> {
        self.0.on_read(buf)
    }
}
impl BufRead for Plain {
    fn fill_buf(&mut self) -> io::Result<&[u8]> {
        self.0.on_fill_buf()
    }
    fn consume(&mut self, amt: usize) {
        self.0.on_consume(amt)
    }
}
impl Seek for Plain {
    fn seek(&mut self, pos: SeekFrom) -> io::Result<u64> {
        self.0.on_seek(pos)
    }
}
impl std::hash::Hasher for Plain {
    fn finish(&self) -> u64 {
        4242
    }
    fn write(&mut self, bytes: &[u8]) {
        self.0.on_hash_write(bytes)
    }
}
struct PlainDisplay(Vec<String>);
impl std::fmt::Display for PlainDisplay {
    fn fmt(&self, f: &mut std::fmt::Formatter<'_>) -> std::fmt::Result {
        for p in &self.0 {
            f.write_str(p)?;
        }
        if self.0.len() == 3 {
            return Err(std::fmt::Error);
        }
        Ok(())
    }
}

impl std::fmt::Debug for PlainDisplay {
    fn fmt(&self, f: &mut std::fmt::Formatter<'_>) -> std::fmt::Result {
        f.write_str("dbg")?;
        for p in &self.0 {
            f.write_str(p)?;
        }
        Ok(())
    }
}

/// formats its subject with `{:?}` when it is dropped - used to format while the thread is unwinding
struct FormatOnDrop<'a, T: std::fmt::Debug>(&'a T, &'a std::sync::Mutex<Vec<String>>);
impl<T: std::fmt::Debug> Drop for FormatOnDrop<'_, T> {
    fn drop(&mut self) {
        let text = format!("{:?}", self.0);
        self.1.lock().unwrap_or_else(|p| p.into_inner()).push(format!("while unwinding: {text}"));
    }
}

#[derive(Debug)]
struct PlainErr;
impl embedded_hal::digital::Error for PlainErr {
    fn kind(&self) -> embedded_hal::digital::ErrorKind {
        embedded_hal::digital::ErrorKind::Other
    }
}
impl embedded_hal::pwm::Error for PlainErr {
    fn kind(&self) -> embedded_hal::pwm::ErrorKind {
        embedded_hal::pwm::ErrorKind::Other
    }
}
impl embedded_hal::i2c::Error for PlainErr {
    fn kind(&self) -> embedded_hal::i2c::ErrorKind {
        embedded_hal::i2c::ErrorKind::Other
    }
}
impl embedded_hal::spi::Error for PlainErr {
    fn kind(&self) -> embedded_hal::spi::ErrorKind {
        embedded_hal::spi::ErrorKind::Other
    }
}
impl embedded_hal::delay::DelayNs for Plain {
    fn delay_ns(&mut self, ns: u32) {
        self.0.log.push(format!("delay_ns {ns}"));
    }
}
impl embedded_hal::digital::ErrorType for Plain {
    type Error = PlainErr;
}
impl embedded_hal::digital::OutputPin for Plain {
    fn set_low(&mut self) -> Result<(), PlainErr> {
        self.0.state = 0;
        if self.0.on_unit("set_low".into()) { Ok(()) } else { Err(PlainErr) }
    }
    fn set_high(&mut self) -> Result<(), PlainErr> {
        self.0.state = 1;
        if self.0.on_unit("set_high".into()) { Ok(()) } else { Err(PlainErr) }
    }
}
impl embedded_hal::digital::StatefulOutputPin for Plain {
    fn is_set_high(&mut self) -> Result<bool, PlainErr> {
        let s = self.0.state == 1;
        if self.0.on_unit("is_set_high".into()) { Ok(s) } else { Err(PlainErr) }
    }
    fn is_set_low(&mut self) -> Result<bool, PlainErr> {
        let s = self.0.state == 0;
        if self.0.on_unit("is_set_low".into()) { Ok(s) } else { Err(PlainErr) }
    }
}
struct PlainPwm(Script);
impl embedded_hal::pwm::ErrorType for PlainPwm {
    type Error = PlainErr;
}
impl embedded_hal::pwm::SetDutyCycle for PlainPwm {
    fn max_duty_cycle(&self) -> u16 {
        1000
    }
    fn set_duty_cycle(&mut self, duty: u16) -> Result<(), PlainErr> {
        if self.0.on_unit(format!("set_duty_cycle {duty}")) { Ok(()) } else { Err(PlainErr) }
    }
}
struct PlainI2c(Script);
impl embedded_hal::i2c::ErrorType for PlainI2c {
    type Error = PlainErr;
}
fn i2c_ops_desc(ops: &mut [embedded_hal::i2c::Operation<'_>], fill: u8) -> String {
    let mut d = String::new();
    for op in ops.iter_mut() {
        match op {
            embedded_hal::i2c::Operation::Read(b) => {
                for (i, x) in b.iter_mut().enumerate() {
                    *x = fill.wrapping_add(i as u8);
                }
                d.push_str(&format!("R{} ", b.len()));
            }
            embedded_hal::i2c::Operation::Write(b) => d.push_str(&format!("W{:?} ", b)),
        }
    }
    d
}
impl embedded_hal::i2c::I2c<u8> for PlainI2c {
    fn transaction(&mut self, address: u8, operations: &mut [embedded_hal::i2c::Operation<'_>]) -> Result<(), PlainErr> {
        let d = i2c_ops_desc(operations, 9);
        if self.0.on_unit(format!("i2c.transaction {address} {d}")) { Ok(()) } else { Err(PlainErr) }
    }
}
struct PlainSpi(Script);
impl embedded_hal::spi::ErrorType for PlainSpi {
    type Error = PlainErr;
}
fn spi_ops_desc(ops: &mut [embedded_hal::spi::Operation<'_, u8>], fill: u8) -> String {
    use embedded_hal::spi::Operation as O;
    let mut d = String::new();
    for op in ops.iter_mut() {
        match op {
            O::Read(b) => {
                for (i, x) in b.iter_mut().enumerate() {
                    *x = fill.wrapping_add(i as u8);
                }
                d.push_str(&format!("R{} ", b.len()));
            }
            O::Write(b) => d.push_str(&format!("W{:?} ", b)),
            O::Transfer(r, w) => {
                for (i, x) in r.iter_mut().enumerate() {
                    *x = fill.wrapping_add(i as u8);
                }
                d.push_str(&format!("T{}/{:?} ", r.len(), w));
            }
            O::TransferInPlace(b) => {
                d.push_str(&format!("I{:?} ", b));
                for x in b.iter_mut() {
                    *x = x.wrapping_add(fill);
                }
            }
            O::DelayNs(n) => d.push_str(&format!("D{n} ")),
        }
    }
    d
}
impl embedded_hal::spi::SpiDevice<u8> for PlainSpi {
    fn transaction(&mut self, operations: &mut [embedded_hal::spi::Operation<'_, u8>]) -> Result<(), PlainErr> {
        let d = spi_ops_desc(operations, 5);
        if self.0.on_unit(format!("spi.transaction {d}")) { Ok(()) } else { Err(PlainErr) }
    }
}

/// the same device is also a bus (one instance serving two generic traits with equally named methods)
impl embedded_hal::spi::SpiBus<u8> for PlainSpi {
    fn read(&mut self, words: &mut [u8]) -> Result<(), PlainErr> {
        words.iter_mut().for_each(|w| *w = 0xB0);
        if self.0.on_unit(format!("bus.read {}", words.len())) { Ok(()) } else { Err(PlainErr) }
    }
    fn write(&mut self, words: &[u8]) -> Result<(), PlainErr> {
        if self.0.on_unit(format!("bus.write {words:?}")) { Ok(()) } else { Err(PlainErr) }
    }
    fn transfer(&mut self, read: &mut [u8], write: &[u8]) -> Result<(), PlainErr> {
        read.iter_mut().for_each(|w| *w = 0xB1);
        if self.0.on_unit(format!("bus.transfer {} {write:?}", read.len())) { Ok(()) } else { Err(PlainErr) }
    }
    fn transfer_in_place(&mut self, words: &mut [u8]) -> Result<(), PlainErr> {
        let d = format!("bus.transfer_in_place {words:?}");
        words.iter_mut().for_each(|w| *w = w.wrapping_add(7));
        if self.0.on_unit(d) { Ok(()) } else { Err(PlainErr) }
    }
    fn flush(&mut self) -> Result<(), PlainErr> {
        if self.0.on_unit("bus.flush".into()) { Ok(()) } else { Err(PlainErr) }
    }
}

// tokio / futures-io
struct PlainAsync(Script);
fn poll_ev<T>(s: &mut Script, cx: &mut Context<'_>, ready: impl FnOnce(&mut Script) -> io::Result<T>) -> Poll<io::Result<T>> {
    if let Some(Ev::Pending(wake)) = s.evs.get(s.pos).copied() {
        s.pos += 1;
        s.log.push(format!("pending wake={wake}"));
        if wake {
            s.wakes += 1;
            cx.waker().wake_by_ref();
        }
        return Poll::Pending;
    }
    Poll::Ready(ready(s))
}
impl tokio::io::AsyncWrite for PlainAsync {
    fn poll_write(mut self: Pin<&mut Self>, cx: &mut Context<'_>, buf: &[u8]) -> Poll<io::Result<usize>> {
        poll_ev(&mut self.0, cx, |s| s.on_write(buf))
    }
    fn poll_flush(mut self: Pin<&mut Self>, cx: &mut Context<'_>) -> Poll<io::Result<()>> {
        poll_ev(&mut self.0, cx, |s| s.on_flush())
    }
    fn poll_shutdown(mut self: Pin<&mut Self>, cx: &mut Context<'_>) -> Poll<io::Result<()>> {
        poll_ev(&mut self.0, cx, |s| {
            s.log.push("shutdown".into());
            Ok(())
        })
    }
}
impl tokio::io::AsyncRead for PlainAsync {
    fn poll_read(mut self: Pin<&mut Self>, cx: &mut Context<'_>, buf: &mut tokio::io::ReadBuf<'_>) -> Poll<io::Result<()>> {
        poll_ev(&mut self.0, cx, |s| {
            let mut tmp = vec![0u8; buf.remaining()];
            let n = s.on_read(&mut tmp)?;
            buf.put_slice(&tmp[..n]);
            Ok(())
        })
    }
}
struct PlainFut(Script);
impl futures_io::AsyncWrite for PlainFut {
    fn poll_write(mut self: Pin<&mut Self>, cx: &mut Context<'_>, buf: &[u8]) -> Poll<io::Result<usize>> {
        poll_ev(&mut self.0, cx, |s| s.on_write(buf))
    }
    fn poll_flush(mut self: Pin<&mut Self>, cx: &mut Context<'_>) -> Poll<io::Result<()>> {
        poll_ev(&mut self.0, cx, |s| s.on_flush())
    }
    fn poll_close(mut self: Pin<&mut Self>, cx: &mut Context<'_>) -> Poll<io::Result<()>> {
        poll_ev(&mut self.0, cx, |s| {
            s.log.push("close".into());
            Ok(())
        })
    }
}
impl futures_io::AsyncRead for PlainFut {
    fn poll_read(mut self: Pin<&mut Self>, cx: &mut Context<'_>, buf: &mut [u8]) -> Poll<io::Result<usize>> {
        poll_ev(&mut self.0, cx, |s| s.on_read(buf))
    }
}

// ---------------------------------------------------------------------------------------------
// the mock side: required methods replay the script through answers_arc closures

fn mock_clauses(s: &Shared, group: u8) -> unimock::verif::DynClause {
    use unimock::verif::DynClause as D;
    let c = |x: &Shared| x.clone();
    let mut v: Vec<D> = vec![];
    match group {
        0 => {
            let (a, b) = (c(s), c(s));
            v.push(D::new(WriteMock::write.each_call(matching!(_)).answers_arc(Arc::new(move |_u: &mut Unimock, buf: &[u8]| sh(&a).on_write(buf)))));
            v.push(D::new(WriteMock::flush.each_call(matching!()).answers_arc(Arc::new(move |_u: &mut Unimock| sh(&b).on_flush()))));
        }
        1 => {
            let a = c(s);
            v.push(D::new(ReadMock::read.each_call(matching!(_)).answers_arc(Arc::new(move |_u: &mut Unimock, buf: &mut [u8]| sh(&a).on_read(buf)))));
        }
        2 => {
            let (a, b, d) = (c(s), c(s), c(s));
            v.push(D::new(ReadMock::read.each_call(matching!(_)).answers_arc(Arc::new(move |_u: &mut Unimock, buf: &mut [u8]| sh(&d).on_read(buf)))));
            v.push(D::new(BufReadMock::fill_buf.each_call(matching!()).answers_arc(Arc::new(move |_u: &mut Unimock| sh(&a).on_fill_buf()))));
            v.push(D::new(BufReadMock::consume.each_call(matching!(_)).answers_arc(Arc::new(move |_u: &mut Unimock, amt: usize| sh(&b).on_consume(amt)))));
        }
        3 => {
            let a = c(s);
            v.push(D::new(SeekMock::seek.each_call(matching!(_)).answers_arc(Arc::new(move |_u: &mut Unimock, pos: SeekFrom| sh(&a).on_seek(pos)))));
        }
        4 => {
            let a = c(s);
            v.push(D::new(HasherMock::write.each_call(matching!(_)).answers_arc(Arc::new(move |_u: &mut Unimock, bytes: &[u8]| sh(&a).on_hash_write(bytes)))));
            v.push(D::new(HasherMock::finish.each_call(matching!()).returns(4242u64)));
        }
        6 => {
            let a = c(s);
            v.push(D::new(ehm::delay::DelayNsMock::delay_ns.each_call(matching!(_)).answers_arc(Arc::new(move |_u: &mut Unimock, ns: u32| sh(&a).log.push(format!("delay_ns {ns}"))))));
        }
        7 => {
            use ehm::digital::{OutputPinMock, StatefulOutputPinMock};
            let (a, b, d, e) = (c(s), c(s), c(s), c(s));
            let r = |ok: bool| if ok { Ok(()) } else { Err(Unimock::new(())) };
            v.push(D::new(OutputPinMock::set_low.each_call(matching!()).answers_arc(Arc::new(move |_u: &mut Unimock| {
                let mut g = sh(&a);
                g.state = 0;
                r(g.on_unit("set_low".into()))
            }))));
            v.push(D::new(OutputPinMock::set_high.each_call(matching!()).answers_arc(Arc::new(move |_u: &mut Unimock| {
                let mut g = sh(&b);
                g.state = 1;
                r(g.on_unit("set_high".into()))
            }))));
            v.push(D::new(StatefulOutputPinMock::is_set_high.each_call(matching!()).answers_arc(Arc::new(move |_u: &mut Unimock| {
                let mut g = sh(&d);
                let st = g.state == 1;
                if g.on_unit("is_set_high".into()) { Ok(st) } else { Err(Unimock::new(())) }
            }))));
            v.push(D::new(StatefulOutputPinMock::is_set_low.each_call(matching!()).answers_arc(Arc::new(move |_u: &mut Unimock| {
                let mut g = sh(&e);
                let st = g.state == 0;
                if g.on_unit("is_set_low".into()) { Ok(st) } else { Err(Unimock::new(())) }
            }))));
        }
        8 => {
            use ehm::pwm::SetDutyCycleMock;
            let a = c(s);
            v.push(D::new(SetDutyCycleMock::max_duty_cycle.each_call(matching!()).returns(1000u16)));
            v.push(D::new(SetDutyCycleMock::set_duty_cycle.each_call(matching!(_)).answers_arc(Arc::new(move |_u: &mut Unimock, duty: u16| {
                if sh(&a).on_unit(format!("set_duty_cycle {duty}")) { Ok(()) } else { Err(Unimock::new(())) }
            }))));
        }
        9 => {
            use ehm::i2c::I2cMock;
            let a = c(s);
            v.push(D::new(I2cMock::transaction.with_types::<u8>().each_call(matching!(_, _)).answers_arc(Arc::new(
                move |_u: &mut Unimock, address: u8, operations: &mut [embedded_hal::i2c::Operation<'_>]| {
                    let d = i2c_ops_desc(operations, 9);
                    if sh(&a).on_unit(format!("i2c.transaction {address} {d}")) { Ok(()) } else { Err(Unimock::new(())) }
                },
            ))));
        }
        10 => {
            use ehm::spi::SpiDeviceMock;
            let a = c(s);
            v.push(D::new(SpiDeviceMock::transaction.with_types::<u8>().each_call(matching!(_)).answers_arc(Arc::new(
                move |_u: &mut Unimock, operations: &mut [embedded_hal::spi::Operation<'_, u8>]| {
                    let d = spi_ops_desc(operations, 5);
                    if sh(&a).on_unit(format!("spi.transaction {d}")) { Ok(()) } else { Err(Unimock::new(())) }
                },
            ))));
            // the same instance is a bus as well
            use ehm::spi::SpiBusMock;
            let (b1, b2, b3, b4, b5) = (c(s), c(s), c(s), c(s), c(s));
            v.push(D::new(SpiBusMock::read.with_types::<u8>().each_call(matching!(_)).answers_arc(Arc::new(move |_u: &mut Unimock, words: &mut [u8]| {
                words.iter_mut().for_each(|w| *w = 0xB0);
                if sh(&b1).on_unit(format!("bus.read {}", words.len())) { Ok(()) } else { Err(Unimock::new(())) }
            }))));
            v.push(D::new(SpiBusMock::write.with_types::<u8>().each_call(matching!(_)).answers_arc(Arc::new(move |_u: &mut Unimock, words: &[u8]| {
                if sh(&b2).on_unit(format!("bus.write {words:?}")) { Ok(()) } else { Err(Unimock::new(())) }
            }))));
            v.push(D::new(SpiBusMock::transfer.with_types::<u8>().each_call(matching!(_, _)).answers_arc(Arc::new(move |_u: &mut Unimock, read: &mut [u8], write: &[u8]| {
                read.iter_mut().for_each(|w| *w = 0xB1);
                if sh(&b3).on_unit(format!("bus.transfer {} {write:?}", read.len())) { Ok(()) } else { Err(Unimock::new(())) }
            }))));
            v.push(D::new(SpiBusMock::transfer_in_place.with_types::<u8>().each_call(matching!(_)).answers_arc(Arc::new(move |_u: &mut Unimock, words: &mut [u8]| {
                let d = format!("bus.transfer_in_place {words:?}");
                words.iter_mut().for_each(|w| *w = w.wrapping_add(7));
                if sh(&b4).on_unit(d) { Ok(()) } else { Err(Unimock::new(())) }
            }))));
            v.push(D::new(SpiBusMock::flush.with_types::<u8>().each_call(matching!()).answers_arc(Arc::new(move |_u: &mut Unimock| {
                if sh(&b5).on_unit("bus.flush".into()) { Ok(()) } else { Err(Unimock::new(())) }
            }))));
        }
        11 => {
            use unimock::mock::tokio_1::io::{AsyncReadMock, AsyncWriteMock};
            let (a, b, d, e) = (c(s), c(s), c(s), c(s));
            v.push(D::new(AsyncWriteMock::poll_write.each_call(matching!(_, _)).answers_arc(Arc::new(move |_u: &mut Unimock, cx: &mut Context<'_>, buf: &[u8]| poll_ev(&mut sh(&a), cx, |s| s.on_write(buf))))));
            v.push(D::new(AsyncWriteMock::poll_flush.each_call(matching!(_)).answers_arc(Arc::new(move |_u: &mut Unimock, cx: &mut Context<'_>| poll_ev(&mut sh(&b), cx, |s| s.on_flush())))));
            v.push(D::new(AsyncWriteMock::poll_shutdown.each_call(matching!(_)).answers_arc(Arc::new(move |_u: &mut Unimock, cx: &mut Context<'_>| {
                poll_ev(&mut sh(&d), cx, |s| {
                    s.log.push("shutdown".into());
                    Ok(())
                })
            }))));
            v.push(D::new(AsyncReadMock::poll_read.each_call(matching!(_, _)).answers_arc(Arc::new(move |_u: &mut Unimock, cx: &mut Context<'_>, buf: &mut tokio::io::ReadBuf<'_>| {
                poll_ev(&mut sh(&e), cx, |s| {
                    let mut tmp = vec![0u8; buf.remaining()];
                    let n = s.on_read(&mut tmp)?;
                    buf.put_slice(&tmp[..n]);
                    Ok(())
                })
            }))));
        }
        _ => {
            use unimock::mock::futures_0_3::io::{AsyncReadMock, AsyncWriteMock};
            let (a, b, d, e) = (c(s), c(s), c(s), c(s));
            v.push(D::new(AsyncWriteMock::poll_write.each_call(matching!(_, _)).answers_arc(Arc::new(move |_u: &mut Unimock, cx: &mut Context<'_>, buf: &[u8]| poll_ev(&mut sh(&a), cx, |s| s.on_write(buf))))));
            v.push(D::new(AsyncWriteMock::poll_flush.each_call(matching!(_)).answers_arc(Arc::new(move |_u: &mut Unimock, cx: &mut Context<'_>| poll_ev(&mut sh(&b), cx, |s| s.on_flush())))));
            v.push(D::new(AsyncWriteMock::poll_close.each_call(matching!(_)).answers_arc(Arc::new(move |_u: &mut Unimock, cx: &mut Context<'_>| {
                poll_ev(&mut sh(&d), cx, |s| {
                    s.log.push("close".into());
                    Ok(())
                })
            }))));
            v.push(D::new(AsyncReadMock::poll_read.each_call(matching!(_, _)).answers_arc(Arc::new(move |_u: &mut Unimock, cx: &mut Context<'_>, buf: &mut [u8]| poll_ev(&mut sh(&e), cx, |s| s.on_read(buf))))));
        }
    }
    D::new(v)
}

fn res<T: std::fmt::Debug>(r: &io::Result<T>) -> String {
    match r {
        Ok(v) => format!("Ok({v:?})"),
        Err(e) => format!("Err({:?})", e.kind()),
    }
}

fn okerr<T: std::fmt::Debug, E>(r: &Result<T, E>) -> String {
    match r {
        Ok(v) => format!("Ok({v:?})"),
        Err(_) => "Err".into(),
    }
}

pub const GROUPS: &[&str] = &[
    "std::io::Write", "std::io::Read", "std::io::BufRead", "std::io::Seek", "core::hash::Hasher", "core::fmt::Display+Debug",
    "embedded_hal::delay::DelayNs", "embedded_hal::digital::(Stateful)OutputPin", "embedded_hal::pwm::SetDutyCycle",
    "embedded_hal::i2c::I2c", "embedded_hal::spi::SpiDevice+SpiBus", "tokio::io::AsyncRead/AsyncWrite", "futures_io::AsyncRead/AsyncWrite",
];

fn gen_script(rng: &mut Rng, faults: bool, asynchronous: bool) -> Vec<Ev> {
    let n = rng.usize(21);
    (0..n)
        .map(|_| {
            let w: [u32; 6] = if faults {
                if asynchronous { [50, 8, 6, 6, 6, 24] } else { [55, 12, 8, 8, 8, 0] }
            } else {
                [100, 0, 0, 0, 0, 0]
            };
            match rng.weighted(&w) {
                0 => Ev::N(if rng.chance(1, 8) { 0 } else { rng.range(1, 12) }),
                1 => Ev::Interrupted,
                2 => Ev::WouldBlock,
                3 => Ev::Other,
                4 => Ev::Eof,
                _ => Ev::Pending(rng.chance(1, 2)),
            }
        })
        .collect()
}

/// drive one provided method on both sides; returns (what was driven, mock observation, reference observation)
fn drive(seed: u64, group: u8, faults: bool) -> (String, Vec<String>, Vec<String>, usize) {
    let mut rng = Rng::new(seed);
    let asynchronous = group >= 11;
    let evs = gen_script(&mut rng, faults, asynchronous);
    let n_evs = evs.len();
    let flush_fails = faults && rng.chance(1, 6);
    let data_pos = rng.usize(40);
    let script = Script::new(evs, flush_fails, data_pos);
    let shared: Shared = Arc::new(Mutex::new(script.clone()));
    let partial = rng.chance(1, 2);
    let clause = mock_clauses(&shared, group);
    let mut u = if partial { Unimock::new_partial(clause) } else { Unimock::new(clause) }.no_verify_in_drop();
    let mut a: Vec<String> = vec![]; // mock side
    let mut b: Vec<String> = vec![]; // reference side
    let payload: Vec<u8> = (0..rng.range(0, 24)).map(|i| b'a' + (i as u8 % 26)).collect();
    let what;
    macro_rules! both {
        ($plain:expr, |$w:ident| $body:expr) => {{
            let mut p = $plain;
            {
                let $w = &mut u;
                a.push($body);
            }
            {
                let $w = &mut p;
                b.push($body);
            }
            a.extend(sh(&shared).log.clone());
            b.extend(p.0.log.clone());
        }};
    }
    match group {
        0 => {
            let k = rng.usize(5);
            what = format!("Write::{}", ["write_all", "write_fmt", "write_vectored", "flush", "write_all+flush"][k]);
            let (x, y) = (rng.below(1000), rng.below(10));
            both!(Plain(script.clone()), |w| match k {
                0 => res(&w.write_all(&payload)),
                1 => res(&write!(w, "{}-{}:{}", x, "mid", y)),
                2 => {
                    let cut = payload.len() / 2;
                    let bufs = [IoSlice::new(&[]), IoSlice::new(&payload[..cut]), IoSlice::new(&payload[cut..])];
                    res(&w.write_vectored(&bufs))
                }
                3 => res(&w.flush()),
                _ => format!("{} {}", res(&w.write_all(&payload)), res(&w.flush())),
            });
        }
        1 => {
            let k = rng.usize(4);
            let n = rng.range(0, 30);
            what = format!("Read::{}", ["read_exact", "read_to_end", "read_to_string", "read_vectored"][k]);
            both!(Plain(script.clone()), |r| match k {
                0 => {
                    let mut buf = vec![0u8; n];
                    let x = r.read_exact(&mut buf);
                    format!("{} {:?}", res(&x), buf)
                }
                1 => {
                    let mut buf = vec![1, 2];
                    let x = r.read_to_end(&mut buf);
                    format!("{} {:?}", res(&x), buf)
                }
                2 => {
                    let mut s = String::from("pre");
                    let x = r.read_to_string(&mut s);
                    format!("{} {:?}", res(&x), s)
                }
                _ => {
                    let (mut b1, mut b2) = (vec![0u8; 0], vec![0u8; n]);
                    let x = {
                        let mut bufs = [IoSliceMut::new(&mut b1), IoSliceMut::new(&mut b2)];
                        r.read_vectored(&mut bufs)
                    };
                    format!("{} {:?}", res(&x), b2)
                }
            });
        }
        2 => {
            let k = rng.usize(3);
            what = format!("BufRead::{}", ["read_until", "read_line", "read_until x2"][k]);
            both!(Plain(script.clone()), |r| match k {
                0 => {
                    let mut buf = vec![9];
                    let x = r.read_until(b'\n', &mut buf);
                    format!("{} {:?}", res(&x), buf)
                }
                1 => {
                    let mut s = String::new();
                    let x = r.read_line(&mut s);
                    format!("{} {:?}", res(&x), s)
                }
                _ => {
                    let mut buf = vec![];
                    let x = r.read_until(b' ', &mut buf);
                    let y = r.read_until(b'\n', &mut buf);
                    format!("{} {} {:?}", res(&x), res(&y), buf)
                }
            });
        }
        3 => {
            let k = rng.usize(2);
            what = format!("Seek::{}", ["rewind", "stream_position"][k]);
            both!(Plain(script.clone()), |r| match k {
                0 => res(&r.rewind()),
                _ => res(&r.stream_position()),
            });
        }
        4 => {
            use std::hash::Hasher;
            let k = rng.usize(13);
            let val = rng.next();
            what = format!("Hasher::{}", ["write_u8", "write_u16", "write_u32", "write_u64", "write_u128", "write_usize", "write_i8", "write_i16", "write_i32", "write_i64", "write_i128", "write_isize", "Hash::hash"][k]);
            both!(Plain(script.clone()), |h| {
                match k {
                    0 => h.write_u8(val as u8),
                    1 => h.write_u16(val as u16),
                    2 => h.write_u32(val as u32),
                    3 => h.write_u64(val),
                    4 => h.write_u128(val as u128 * 3),
                    5 => h.write_usize(val as usize),
                    6 => h.write_i8(val as i8),
                    7 => h.write_i16(val as i16),
                    8 => h.write_i32(val as i32),
                    9 => h.write_i64(val as i64),
                    10 => h.write_i128(-(val as i128)),
                    11 => h.write_isize(val as isize),
                    _ => std::hash::Hash::hash(&(val as u32, "str", [1u8, 2]), h),
                }
                format!("finish {}", h.finish())
            });
        }
        5 => {
            what = "Display via format!".into();
            let parts: Vec<String> = (0..rng.range(0, 3)).map(|i| format!("part{i}-{}", rng.below(100))).collect();
            let p2 = parts.clone();
            let p3 = parts.clone();
            let du = Unimock::new((
                DisplayMock::fmt.each_call(matching!(_)).answers_arc(Arc::new(move |_u: &Unimock, f: &mut std::fmt::Formatter<'_>| {
                    for p in &p2 {
                        f.write_str(p)?;
                    }
                    if p2.len() == 3 {
                        return Err(std::fmt::Error);
                    }
                    Ok(())
                })),
                unimock::mock::core::fmt::DebugMock::fmt.each_call(matching!(_)).answers_arc(Arc::new(move |_u: &Unimock, f: &mut std::fmt::Formatter<'_>| {
                    f.write_str("dbg")?;
                    for p in &p3 {
                        f.write_str(p)?;
                    }
                    Ok(())
                })),
            ))
            .no_verify_in_drop();
            let pd = PlainDisplay(parts);
            use std::fmt::Write as _;
            let mut sa = String::new();
            let ra = write!(sa, "[{}|{:>12}]", du, du);
            let mut sb = String::new();
            let rb = write!(sb, "[{}|{:>12}]", pd, pd);
            a.push(format!("{:?} {sa}", ra.is_ok()));
            b.push(format!("{:?} {sb}", rb.is_ok()));
            // Debug, also requested while the thread is unwinding (a destructor that logs its subject)
            a.push(format!("{du:?}"));
            b.push(format!("{pd:?}"));
            let (la, lb) = (std::sync::Mutex::new(vec![]), std::sync::Mutex::new(vec![]));
            let _ = std::panic::catch_unwind(std::panic::AssertUnwindSafe(|| {
                let _g = FormatOnDrop(&du, &la);
                std::panic::resume_unwind(Box::new(crate::ctx::UserFault::Body));
            }));
            let _ = std::panic::catch_unwind(std::panic::AssertUnwindSafe(|| {
                let _g = FormatOnDrop(&pd, &lb);
                std::panic::resume_unwind(Box::new(crate::ctx::UserFault::Body));
            }));
            a.extend(la.into_inner().unwrap_or_default());
            b.extend(lb.into_inner().unwrap_or_default());
        }
        6 => {
            use embedded_hal::delay::DelayNs;
            let k = rng.usize(2);
            let val = *rng.pick(&[0u32, 1, 5, 999, 4_294_967, 4_294_968, 100_000, u32::MAX]);
            what = format!("DelayNs::{}", ["delay_us", "delay_ms"][k]);
            both!(Plain(script.clone()), |d| {
                match k {
                    0 => d.delay_us(val),
                    _ => d.delay_ms(val % 5000),
                }
                String::new()
            });
        }
        7 => {
            use embedded_hal::digital::{OutputPin, PinState, StatefulOutputPin};
            let k = rng.usize(3);
            what = format!("OutputPin::{}", ["set_state(High)", "set_state(Low)", "toggle"][k]);
            both!(Plain(script.clone()), |p| match k {
                0 => okerr(&p.set_state(PinState::High)),
                1 => okerr(&p.set_state(PinState::Low)),
                _ => format!("{} {}", okerr(&p.toggle()), okerr(&p.toggle())),
            });
        }
        8 => {
            use embedded_hal::pwm::SetDutyCycle;
            let k = rng.usize(4);
            let (num, den, pct) = (rng.below(20) as u16, 1 + rng.below(20) as u16, rng.below(101) as u8);
            what = format!("SetDutyCycle::{}", ["fully_off", "fully_on", "fraction", "percent"][k]);
            let num = num.min(den);
            both!(PlainPwm(script.clone()), |p| match k {
                0 => okerr(&p.set_duty_cycle_fully_off()),
                1 => okerr(&p.set_duty_cycle_fully_on()),
                2 => okerr(&p.set_duty_cycle_fraction(num, den)),
                _ => okerr(&p.set_duty_cycle_percent(pct)),
            });
        }
        9 => {
            use embedded_hal::i2c::I2c;
            let k = rng.usize(3);
            let addr = rng.below(128) as u8;
            what = format!("I2c::{}", ["read", "write", "write_read"][k]);
            let n = rng.range(0, 6);
            both!(PlainI2c(script.clone()), |p| match k {
                0 => {
                    let mut buf = vec![0u8; n];
                    let r = I2c::read(p, addr, &mut buf);
                    format!("{} {:?}", okerr(&r), buf)
                }
                1 => okerr(&I2c::write(p, addr, &payload)),
                _ => {
                    let mut buf = vec![0u8; n];
                    let r = I2c::write_read(p, addr, &payload, &mut buf);
                    format!("{} {:?}", okerr(&r), buf)
                }
            });
        }
        10 => {
            use embedded_hal::spi::{SpiBus, SpiDevice};
            let k = rng.usize(9);
            what = format!("Spi{}", ["Device::read", "Device::write", "Device::transfer", "Device::transfer_in_place", "Bus::read", "Bus::write", "Bus::transfer", "Bus::transfer_in_place", "Bus::flush"][k]);
            let n = rng.range(0, 6);
            both!(PlainSpi(script.clone()), |p| match k {
                4 => {
                    let mut buf = vec![0u8; n];
                    let r = SpiBus::read(p, &mut buf);
                    format!("{} {:?}", okerr(&r), buf)
                }
                5 => okerr(&SpiBus::write(p, &payload)),
                6 => {
                    let mut buf = vec![0u8; n];
                    let r = SpiBus::transfer(p, &mut buf, &payload);
                    format!("{} {:?}", okerr(&r), buf)
                }
                7 => {
                    let mut buf = payload.clone();
                    let r = SpiBus::transfer_in_place(p, &mut buf);
                    format!("{} {:?}", okerr(&r), buf)
                }
                8 => okerr(&SpiBus::<u8>::flush(p)),
                0 => {
                    let mut buf = vec![0u8; n];
                    let r = SpiDevice::read(p, &mut buf);
                    format!("{} {:?}", okerr(&r), buf)
                }
                1 => okerr(&SpiDevice::write(p, &payload)),
                2 => {
                    let mut buf = vec![0u8; n];
                    let r = SpiDevice::transfer(p, &mut buf, &payload);
                    format!("{} {:?}", okerr(&r), buf)
                }
                _ => {
                    let mut buf = payload.clone();
                    let r = SpiDevice::transfer_in_place(p, &mut buf);
                    format!("{} {:?}", okerr(&r), buf)
                }
            });
        }
        11 => {
            use tokio::io::{AsyncReadExt, AsyncWriteExt};
            let k = rng.usize(6);
            what = format!("tokio::{}", ["poll_write_vectored", "is_write_vectored", "write_all", "read_exact", "read_to_end", "flush+shutdown"][k]);
            let n = rng.range(0, 20);
            let waker = crate::exec::counting_waker();
            fn run<F: std::future::Future>(f: F, waker: &std::task::Waker) -> Option<F::Output> {
                let mut f = std::pin::pin!(f);
                let mut cx = Context::from_waker(waker);
                for _ in 0..64 {
                    if let Poll::Ready(v) = f.as_mut().poll(&mut cx) {
                        return Some(v);
                    }
                }
                None
            }
            both!(PlainAsync(script.clone()), |w| match k {
                0 => {
                    let cut = payload.len() / 3;
                    let bufs = [IoSlice::new(&[]), IoSlice::new(&payload[..cut]), IoSlice::new(&payload[cut..])];
                    let mut cx = Context::from_waker(&waker);
                    match tokio::io::AsyncWrite::poll_write_vectored(Pin::new(&mut *w), &mut cx, &bufs) {
                        Poll::Ready(r) => res(&r),
                        Poll::Pending => "Pending".into(),
                    }
                }
                1 => format!("{}", tokio::io::AsyncWrite::is_write_vectored(&*w)),
                2 => format!("{:?}", run(AsyncWriteExt::write_all(w, &payload), &waker).map(|r| res(&r))),
                3 => {
                    let mut buf = vec![0u8; n];
                    let r = run(AsyncReadExt::read_exact(w, &mut buf), &waker).map(|r| res(&r));
                    format!("{:?} {:?}", r, buf)
                }
                4 => {
                    let mut buf = vec![];
                    let r = run(AsyncReadExt::read_to_end(w, &mut buf), &waker).map(|r| res(&r));
                    format!("{:?} {:?}", r, buf)
                }
                _ => format!("{:?} {:?}", run(AsyncWriteExt::flush(w), &waker).map(|r| res(&r)), run(AsyncWriteExt::shutdown(w), &waker).map(|r| res(&r))),
            });
        }
        _ => {
            let k = rng.usize(2);
            what = format!("futures_io::{}", ["poll_write_vectored", "poll_read_vectored"][k]);
            let n = rng.range(0, 20);
            let waker = crate::exec::counting_waker();
            both!(PlainFut(script.clone()), |w| {
                let mut cx = Context::from_waker(&waker);
                match k {
                    0 => {
                        let cut = payload.len() / 3;
                        let bufs = [IoSlice::new(&[]), IoSlice::new(&payload[..cut]), IoSlice::new(&payload[cut..])];
                        match futures_io::AsyncWrite::poll_write_vectored(Pin::new(&mut *w), &mut cx, &bufs) {
                            Poll::Ready(r) => res(&r),
                            Poll::Pending => "Pending".into(),
                        }
                    }
                    _ => {
                        let (mut b1, mut b2) = (vec![0u8; 0], vec![0u8; n]);
                        let r = {
                            let mut bufs = [IoSliceMut::new(&mut b1), IoSliceMut::new(&mut b2)];
                            futures_io::AsyncRead::poll_read_vectored(Pin::new(&mut *w), &mut cx, &mut bufs)
                        };
                        match r {
                            Poll::Ready(r) => format!("{} {:?}", res(&r), b2),
                            Poll::Pending => "Pending".into(),
                        }
                    }
                }
            });
        }
    }
    // Termination::report is partial by default: unmocked, and whatever provided methods ran before
    // (the delegation helper may exist by now), it must map the real verification status to an exit code
    if rng.chance(1, 3) {
        let r = std::panic::catch_unwind(std::panic::AssertUnwindSafe(move || std::process::Termination::report(u)));
        a.push(format!("report() returned an exit code: {}", r.is_ok()));
        b.push("report() returned an exit code: true".to_string());
    } else {
        drop(u);
    }
    (format!("{} ({}, {})", what, if partial { "partial mock" } else { "strict mock" }, GROUPS[group as usize]), a, b, n_evs)
}

pub fn check_c20(scn: &Scenario) -> Checked {
    if scn.batch == "wiring" {
        let table = wiring_table();
        let mut stats = RunStats::default();
        stats.ops = table.len() as u64;
        stats.calls = table.len() as u64;
        stats.nontrivial = true;
        stats.shape = 0x7ab1e;
        *stats.probes.entry("wiring_table_entry_points".into()).or_default() += table.len() as u64;
        stats.sample = Some(format!("wiring table: {} entry points, each mocked with its own response and called once through the upstream trait path: {}", table.len(), table.iter().map(|(n, ok)| format!("{n}={}", if *ok { "ok" } else { "FAIL" })).collect::<Vec<_>>().join(", ")));
        let violations = table
            .iter()
            .filter(|(_, ok)| !ok)
            .map(|(n, _)| v("C20", "entry-point-wiring", n.clone(), format!("{n}: mocked with its own unique response and called once through the upstream trait path, it was not served by its own entry point (wrong result, panic, or the mock's verification failed)")))
            .collect();
        return Checked { violations, stats, harness_error: None };
    }
    let seed = scn.knob("io_seed").unwrap_or(1) as u64;
    let group = scn.knob("group").unwrap_or(0) as u8;
    let faults = scn.batch == "faults";
    let mut stats = RunStats::default();
    let r = std::panic::catch_unwind(|| drive(seed, group, faults));
    let mut violations: Vec<Violation> = vec![];
    match r {
        Ok((what, a, b, n_evs)) => {
            stats.ops = 1;
            stats.calls = a.len().saturating_sub(1) as u64;
            stats.steps = a.len() as u64;
            stats.nontrivial = a.len() >= 2;
            let mut sig = crate::rng::Sig::new();
            sig.add_str(&what);
            for l in &b {
                sig.add_str(l);
            }
            stats.shape = sig.0;
            *stats.probes.entry(format!("group/{}", GROUPS[group as usize])).or_default() += 1;
            for l in &b {
                for (needle, name) in [("Interrupted", "interrupted"), ("WouldBlock", "would_block"), ("Err(Other)", "other_error"), ("pending", "pending"), ("UnexpectedEof", "unexpected_eof"), ("WriteZero", "write_zero"), ("InvalidData", "invalid_utf8")] {
                    if l.contains(needle) {
                        *stats.faults.entry(format!("io:{name}")).or_default() += 1;
                    }
                }
            }
            stats.sample = Some(format!("{what}; script of {n_evs} events; observed on both sides: {:?}", b));
            if a != b {
                let i = a.iter().zip(&b).position(|(x, y)| x != y).unwrap_or(a.len().min(b.len()));
                violations.push(v(
                    "C20",
                    "same-as-hand-written-impl",
                    GROUPS[group as usize],
                    format!("{what}: observation #{i} differs: mock {:?} vs plain struct {:?} (full: mock {:?}; plain {:?})", a.get(i), b.get(i), a, b),
                ));
            }
        }
        Err(p) => {
            let msg = match crate::ctx::classify_panic(p.as_ref()) {
                crate::ctx::Outcome::MockPanic(s) => s,
                o => format!("{o:?}"),
            };
            stats.nontrivial = true;
            violations.push(v(
                "C20",
                "same-as-hand-written-impl",
                GROUPS[group as usize],
                format!("driving {} through the mock panicked: {msg}", GROUPS[group as usize]),
            ));
        }
    }
    Checked { violations, stats, harness_error: None }
}

// ---------------------------------------------------------------------------------------------
// Wiring table: every method of the mirrored traits, mocked with its own unique response and called
// once through the upstream trait path, must be served by its own entry point.

macro_rules! wire {
    ($out:ident, $name:expr, $clause:expr, |$u:ident| $call:expr) => {{
        let r = std::panic::catch_unwind(std::panic::AssertUnwindSafe(|| {
            #[allow(unused_mut)]
            let mut $u = Unimock::new($clause);
            let ok: bool = $call;
            // the entry point was matched exactly once: verification passes
            let verified = std::panic::catch_unwind(std::panic::AssertUnwindSafe(move || $u.verify())).is_ok();
            ok && verified
        }));
        $out.push(($name.to_string(), matches!(r, Ok(true))));
    }};
}

pub fn wiring_table() -> Vec<(String, bool)> {
    use embedded_hal::delay::DelayNs;
    use embedded_hal::digital::{InputPin, OutputPin, PinState, StatefulOutputPin};
    use embedded_hal::i2c::I2c;
    use embedded_hal::pwm::SetDutyCycle;
    use embedded_hal::spi::{SpiBus, SpiDevice};
    use std::hash::Hasher;
    let mut out: Vec<(String, bool)> = vec![];
    let other = || io::Error::new(io::ErrorKind::Other, "x");
    // std::io::Read
    wire!(out, "Read::read", ReadMock::read.next_call(matching!(_)).returns(Ok(11usize)), |u| matches!(Read::read(&mut u, &mut [0u8; 4]), Ok(11)));
    wire!(out, "Read::read_vectored", ReadMock::read_vectored.next_call(matching!(_)).returns(Ok(12usize)), |u| matches!(Read::read_vectored(&mut u, &mut []), Ok(12)));
    wire!(out, "Read::read_to_end", ReadMock::read_to_end.next_call(matching!(_)).returns(Ok(13usize)), |u| matches!(Read::read_to_end(&mut u, &mut vec![]), Ok(13)));
    wire!(out, "Read::read_to_string", ReadMock::read_to_string.next_call(matching!(_)).returns(Ok(14usize)), |u| matches!(Read::read_to_string(&mut u, &mut String::new()), Ok(14)));
    wire!(out, "Read::read_exact", ReadMock::read_exact.next_call(matching!(_)).returns(Err(other())), |u| Read::read_exact(&mut u, &mut [0u8; 2]).is_err());
    // std::io::Write
    wire!(out, "Write::write", WriteMock::write.next_call(matching!(_)).returns(Ok(21usize)), |u| matches!(Write::write(&mut u, b"abc"), Ok(21)));
    wire!(out, "Write::flush", WriteMock::flush.next_call(matching!()).returns(Err(other())), |u| Write::flush(&mut u).is_err());
    wire!(out, "Write::write_vectored", WriteMock::write_vectored.next_call(matching!(_)).returns(Ok(23usize)), |u| matches!(Write::write_vectored(&mut u, &[]), Ok(23)));
    wire!(out, "Write::write_all", WriteMock::write_all.next_call(matching!(_)).returns(Err(other())), |u| Write::write_all(&mut u, b"abc").is_err());
    // std::io::BufRead
    wire!(out, "BufRead::fill_buf", BufReadMock::fill_buf.next_call(matching!()).returns(Ok::<Vec<u8>, io::Error>(vec![7u8, 8])), |u| matches!(BufRead::fill_buf(&mut u), Ok(b) if b == [7u8, 8]));
    wire!(out, "BufRead::consume", BufReadMock::consume.next_call(matching!(31)).returns(()), |u| {
        BufRead::consume(&mut u, 31);
        true
    });
    wire!(out, "BufRead::read_until", BufReadMock::read_until.next_call(matching!(_, _)).returns(Ok(32usize)), |u| matches!(BufRead::read_until(&mut u, b'x', &mut vec![]), Ok(32)));
    wire!(out, "BufRead::read_line", BufReadMock::read_line.next_call(matching!(_)).returns(Ok(33usize)), |u| matches!(BufRead::read_line(&mut u, &mut String::new()), Ok(33)));
    // std::io::Seek
    wire!(out, "Seek::seek", SeekMock::seek.next_call(matching!(_)).returns(Ok(41u64)), |u| matches!(Seek::seek(&mut u, SeekFrom::Start(1)), Ok(41)));
    wire!(out, "Seek::rewind", SeekMock::rewind.next_call(matching!()).returns(Err(other())), |u| Seek::rewind(&mut u).is_err());
    wire!(out, "Seek::stream_position", SeekMock::stream_position.next_call(matching!()).returns(Ok(43u64)), |u| matches!(Seek::stream_position(&mut u), Ok(43)));
    // core::hash::Hasher
    wire!(out, "Hasher::finish", HasherMock::finish.next_call(matching!()).returns(51u64), |u| Hasher::finish(&u) == 51);
    wire!(out, "Hasher::write", HasherMock::write.next_call(matching!(_)).returns(()), |u| {
        Hasher::write(&mut u, b"ab");
        true
    });
    macro_rules! hw {
        ($m:ident, $v:expr) => {
            wire!(out, concat!("Hasher::", stringify!($m)), HasherMock::$m.next_call(matching!(_)).returns(()), |u| {
                Hasher::$m(&mut u, $v);
                true
            });
        };
    }
    hw!(write_u8, 1);
    hw!(write_u16, 2);
    hw!(write_u32, 3);
    hw!(write_u64, 4);
    hw!(write_u128, 5);
    hw!(write_usize, 6);
    hw!(write_i8, 7);
    hw!(write_i16, 8);
    hw!(write_i32, 9);
    hw!(write_i64, 10);
    hw!(write_i128, 11);
    hw!(write_isize, 12);
    // core::fmt
    wire!(out, "Display::fmt", DisplayMock::fmt.next_call(matching!(_)).answers(&|_, f| f.write_str("disp")), |u| format!("{u}") == "disp");
    wire!(out, "Debug::fmt", unimock::mock::core::fmt::DebugMock::fmt.next_call(matching!(_)).answers(&|_, f| f.write_str("dbg")), |u| format!("{u:?}") == "dbg");
    // embedded-hal
    wire!(out, "DelayNs::delay_ns", ehm::delay::DelayNsMock::delay_ns.next_call(matching!(61)).returns(()), |u| {
        DelayNs::delay_ns(&mut u, 61);
        true
    });
    wire!(out, "DelayNs::delay_us", ehm::delay::DelayNsMock::delay_us.next_call(matching!(62)).returns(()), |u| {
        DelayNs::delay_us(&mut u, 62);
        true
    });
    wire!(out, "DelayNs::delay_ms", ehm::delay::DelayNsMock::delay_ms.next_call(matching!(63)).returns(()), |u| {
        DelayNs::delay_ms(&mut u, 63);
        true
    });
    wire!(out, "InputPin::is_high", ehm::digital::InputPinMock::is_high.next_call(matching!()).returns(Ok(true)), |u| matches!(InputPin::is_high(&mut u), Ok(true)));
    wire!(out, "InputPin::is_low", ehm::digital::InputPinMock::is_low.next_call(matching!()).returns(Ok(true)), |u| matches!(InputPin::is_low(&mut u), Ok(true)));
    wire!(out, "OutputPin::set_low", ehm::digital::OutputPinMock::set_low.next_call(matching!()).returns(Err(Unimock::new(()))), |u| OutputPin::set_low(&mut u).is_err());
    wire!(out, "OutputPin::set_high", ehm::digital::OutputPinMock::set_high.next_call(matching!()).returns(Err(Unimock::new(()))), |u| OutputPin::set_high(&mut u).is_err());
    wire!(out, "OutputPin::set_state", ehm::digital::OutputPinMock::set_state.next_call(matching!(_)).returns(Err(Unimock::new(()))), |u| OutputPin::set_state(&mut u, PinState::High).is_err());
    wire!(out, "StatefulOutputPin::is_set_high", ehm::digital::StatefulOutputPinMock::is_set_high.next_call(matching!()).returns(Ok(true)), |u| matches!(StatefulOutputPin::is_set_high(&mut u), Ok(true)));
    wire!(out, "StatefulOutputPin::is_set_low", ehm::digital::StatefulOutputPinMock::is_set_low.next_call(matching!()).returns(Ok(true)), |u| matches!(StatefulOutputPin::is_set_low(&mut u), Ok(true)));
    wire!(out, "StatefulOutputPin::toggle", ehm::digital::StatefulOutputPinMock::toggle.next_call(matching!()).returns(Err(Unimock::new(()))), |u| StatefulOutputPin::toggle(&mut u).is_err());
    wire!(out, "SetDutyCycle::max_duty_cycle", ehm::pwm::SetDutyCycleMock::max_duty_cycle.next_call(matching!()).returns(71u16), |u| SetDutyCycle::max_duty_cycle(&u) == 71);
    wire!(out, "SetDutyCycle::set_duty_cycle", ehm::pwm::SetDutyCycleMock::set_duty_cycle.next_call(matching!(72)).returns(Err(Unimock::new(()))), |u| SetDutyCycle::set_duty_cycle(&mut u, 72).is_err());
    wire!(out, "SetDutyCycle::set_duty_cycle_fully_off", ehm::pwm::SetDutyCycleMock::set_duty_cycle_fully_off.next_call(matching!()).returns(Err(Unimock::new(()))), |u| SetDutyCycle::set_duty_cycle_fully_off(&mut u).is_err());
    wire!(out, "SetDutyCycle::set_duty_cycle_fully_on", ehm::pwm::SetDutyCycleMock::set_duty_cycle_fully_on.next_call(matching!()).returns(Err(Unimock::new(()))), |u| SetDutyCycle::set_duty_cycle_fully_on(&mut u).is_err());
    wire!(out, "SetDutyCycle::set_duty_cycle_fraction", ehm::pwm::SetDutyCycleMock::set_duty_cycle_fraction.next_call(matching!(1, 2)).returns(Err(Unimock::new(()))), |u| SetDutyCycle::set_duty_cycle_fraction(&mut u, 1, 2).is_err());
    wire!(out, "SetDutyCycle::set_duty_cycle_percent", ehm::pwm::SetDutyCycleMock::set_duty_cycle_percent.next_call(matching!(75)).returns(Err(Unimock::new(()))), |u| SetDutyCycle::set_duty_cycle_percent(&mut u, 75).is_err());
    wire!(out, "I2c::transaction", ehm::i2c::I2cMock::transaction.with_types::<u8>().next_call(matching!(81, _)).returns(Err(Unimock::new(()))), |u| I2c::<u8>::transaction(&mut u, 81, &mut []).is_err());
    wire!(out, "I2c::read", ehm::i2c::I2cMock::read.with_types::<u8>().next_call(matching!(82, _)).returns(Err(Unimock::new(()))), |u| I2c::<u8>::read(&mut u, 82, &mut [0]).is_err());
    wire!(out, "I2c::write", ehm::i2c::I2cMock::write.with_types::<u8>().next_call(matching!(83, _)).returns(Err(Unimock::new(()))), |u| I2c::<u8>::write(&mut u, 83, &[0]).is_err());
    wire!(out, "I2c::write_read", ehm::i2c::I2cMock::write_read.with_types::<u8>().next_call(matching!(84, _, _)).returns(Err(Unimock::new(()))), |u| I2c::<u8>::write_read(&mut u, 84, &[0], &mut [0]).is_err());
    wire!(out, "SpiDevice::transaction", ehm::spi::SpiDeviceMock::transaction.with_types::<u8>().next_call(matching!(_)).returns(Err(Unimock::new(()))), |u| SpiDevice::<u8>::transaction(&mut u, &mut []).is_err());
    wire!(out, "SpiDevice::read", ehm::spi::SpiDeviceMock::read.with_types::<u8>().next_call(matching!(_)).returns(Err(Unimock::new(()))), |u| SpiDevice::<u8>::read(&mut u, &mut [0]).is_err());
    wire!(out, "SpiDevice::write", ehm::spi::SpiDeviceMock::write.with_types::<u8>().next_call(matching!(_)).returns(Err(Unimock::new(()))), |u| SpiDevice::<u8>::write(&mut u, &[0]).is_err());
    wire!(out, "SpiDevice::transfer", ehm::spi::SpiDeviceMock::transfer.with_types::<u8>().next_call(matching!(_, _)).returns(Err(Unimock::new(()))), |u| SpiDevice::<u8>::transfer(&mut u, &mut [0], &[0]).is_err());
    wire!(out, "SpiDevice::transfer_in_place", ehm::spi::SpiDeviceMock::transfer_in_place.with_types::<u8>().next_call(matching!(_)).returns(Err(Unimock::new(()))), |u| SpiDevice::<u8>::transfer_in_place(&mut u, &mut [0]).is_err());
    wire!(out, "SpiBus::read", ehm::spi::SpiBusMock::read.with_types::<u8>().next_call(matching!(_)).returns(Err(Unimock::new(()))), |u| SpiBus::<u8>::read(&mut u, &mut [0]).is_err());
    wire!(out, "SpiBus::write", ehm::spi::SpiBusMock::write.with_types::<u8>().next_call(matching!(_)).returns(Err(Unimock::new(()))), |u| SpiBus::<u8>::write(&mut u, &[0]).is_err());
    wire!(out, "SpiBus::transfer", ehm::spi::SpiBusMock::transfer.with_types::<u8>().next_call(matching!(_, _)).returns(Err(Unimock::new(()))), |u| SpiBus::<u8>::transfer(&mut u, &mut [0], &[0]).is_err());
    wire!(out, "SpiBus::transfer_in_place", ehm::spi::SpiBusMock::transfer_in_place.with_types::<u8>().next_call(matching!(_)).returns(Err(Unimock::new(()))), |u| SpiBus::<u8>::transfer_in_place(&mut u, &mut [0]).is_err());
    wire!(out, "SpiBus::flush", ehm::spi::SpiBusMock::flush.with_types::<u8>().next_call(matching!()).returns(Err(Unimock::new(()))), |u| SpiBus::<u8>::flush(&mut u).is_err());
    // Termination::report as a mocked method (it is partial by default: unmocked it verifies)
    {
        let r = std::panic::catch_unwind(|| {
            let u = Unimock::new(unimock::mock::std::process::TerminationMock::report.next_call(matching!()).returns(std::process::ExitCode::from(7)));
            let code = std::process::Termination::report(u);
            format!("{code:?}") == format!("{:?}", std::process::ExitCode::from(7))
        });
        out.push(("Termination::report".to_string(), matches!(r, Ok(true))));
    }
    wire!(out, "digital::Error::kind", ehm::digital::ErrorMock::kind.next_call(matching!()).returns(embedded_hal::digital::ErrorKind::Other), |u| matches!(embedded_hal::digital::Error::kind(&u), embedded_hal::digital::ErrorKind::Other));
    wire!(out, "i2c::Error::kind", ehm::i2c::ErrorMock::kind.next_call(matching!()).returns(embedded_hal::i2c::ErrorKind::Bus), |u| matches!(embedded_hal::i2c::Error::kind(&u), embedded_hal::i2c::ErrorKind::Bus));
    wire!(out, "pwm::Error::kind", ehm::pwm::ErrorMock::kind.next_call(matching!()).returns(embedded_hal::pwm::ErrorKind::Other), |u| matches!(embedded_hal::pwm::Error::kind(&u), embedded_hal::pwm::ErrorKind::Other));
    wire!(out, "spi::Error::kind", ehm::spi::ErrorMock::kind.next_call(matching!()).returns(embedded_hal::spi::ErrorKind::Overrun), |u| matches!(embedded_hal::spi::Error::kind(&u), embedded_hal::spi::ErrorKind::Overrun));
    // std::error::Error (its only stable method is provided upstream)
    wire!(out, "Error::source", unimock::mock::std::error::ErrorMock::source.next_call(matching!()).answers(&|_| { static E: std::fmt::Error = std::fmt::Error; Some(&E as &(dyn std::error::Error + 'static)) }), |u| std::error::Error::source(&u).is_some());
    wire!(out, "Error::source (not mentioned: upstream's body)", WriteMock::flush.next_call(matching!()).returns(Ok(())), |u| std::error::Error::source(&u).is_none() && Write::flush(&mut u).is_ok());
    // tokio / futures-io (poll entry points, called directly)
    {
        use unimock::mock::tokio_1::io as t;
        let waker = crate::exec::counting_waker();
        let mut cx = Context::from_waker(&waker);
        wire!(out, "tokio AsyncRead::poll_read", t::AsyncReadMock::poll_read.next_call(matching!(_, _)).returns(Poll::Ready(Err(other()))), |u| {
            let mut b = [0u8; 2];
            let mut rb = tokio::io::ReadBuf::new(&mut b);
            matches!(tokio::io::AsyncRead::poll_read(Pin::new(&mut u), &mut cx, &mut rb), Poll::Ready(Err(_)))
        });
        wire!(out, "tokio AsyncWrite::poll_write", t::AsyncWriteMock::poll_write.next_call(matching!(_, _)).returns(Poll::Ready(Ok(91usize))), |u| matches!(tokio::io::AsyncWrite::poll_write(Pin::new(&mut u), &mut cx, b"ab"), Poll::Ready(Ok(91))));
        wire!(out, "tokio AsyncWrite::poll_flush", t::AsyncWriteMock::poll_flush.next_call(matching!(_)).returns(Poll::Ready(Err(other()))), |u| matches!(tokio::io::AsyncWrite::poll_flush(Pin::new(&mut u), &mut cx), Poll::Ready(Err(_))));
        wire!(out, "tokio AsyncWrite::poll_shutdown", t::AsyncWriteMock::poll_shutdown.next_call(matching!(_)).returns(Poll::Ready(Err(other()))), |u| matches!(tokio::io::AsyncWrite::poll_shutdown(Pin::new(&mut u), &mut cx), Poll::Ready(Err(_))));
        wire!(out, "tokio AsyncWrite::poll_write_vectored", t::AsyncWriteMock::poll_write_vectored.next_call(matching!(_, _)).returns(Poll::Ready(Ok(94usize))), |u| matches!(tokio::io::AsyncWrite::poll_write_vectored(Pin::new(&mut u), &mut cx, &[]), Poll::Ready(Ok(94))));
        wire!(out, "tokio AsyncWrite::is_write_vectored", t::AsyncWriteMock::is_write_vectored.next_call(matching!()).returns(true), |u| tokio::io::AsyncWrite::is_write_vectored(&u));
        wire!(out, "tokio AsyncSeek::start_seek", t::AsyncSeekMock::start_seek.next_call(matching!(_)).returns(Err(other())), |u| tokio::io::AsyncSeek::start_seek(Pin::new(&mut u), SeekFrom::Start(0)).is_err());
        wire!(out, "tokio AsyncSeek::poll_complete", t::AsyncSeekMock::poll_complete.next_call(matching!(_)).returns(Poll::Ready(Ok(96u64))), |u| matches!(tokio::io::AsyncSeek::poll_complete(Pin::new(&mut u), &mut cx), Poll::Ready(Ok(96))));
        wire!(out, "tokio AsyncBufRead::poll_fill_buf", t::AsyncBufReadMock::poll_fill_buf.next_call(matching!(_)).returns(Poll::Ready(Ok::<Vec<u8>, io::Error>(vec![9u8, 8]))), |u| {
            matches!(tokio::io::AsyncBufRead::poll_fill_buf(Pin::new(&mut u), &mut cx), Poll::Ready(Ok(b)) if b == [9u8, 8])
        });
        wire!(out, "tokio AsyncBufRead::consume", t::AsyncBufReadMock::consume.next_call(matching!(97)).returns(()), |u| {
            tokio::io::AsyncBufRead::consume(Pin::new(&mut u), 97);
            true
        });
    }
    {
        use unimock::mock::futures_0_3::io as f;
        let waker = crate::exec::counting_waker();
        let mut cx = Context::from_waker(&waker);
        wire!(out, "futures AsyncRead::poll_read", f::AsyncReadMock::poll_read.next_call(matching!(_, _)).returns(Poll::Ready(Ok(101usize))), |u| matches!(futures_io::AsyncRead::poll_read(Pin::new(&mut u), &mut cx, &mut [0u8; 2]), Poll::Ready(Ok(101))));
        wire!(out, "futures AsyncRead::poll_read_vectored", f::AsyncReadMock::poll_read_vectored.next_call(matching!(_, _)).returns(Poll::Ready(Ok(102usize))), |u| matches!(futures_io::AsyncRead::poll_read_vectored(Pin::new(&mut u), &mut cx, &mut []), Poll::Ready(Ok(102))));
        wire!(out, "futures AsyncWrite::poll_write", f::AsyncWriteMock::poll_write.next_call(matching!(_, _)).returns(Poll::Ready(Ok(103usize))), |u| matches!(futures_io::AsyncWrite::poll_write(Pin::new(&mut u), &mut cx, b"ab"), Poll::Ready(Ok(103))));
        wire!(out, "futures AsyncWrite::poll_flush", f::AsyncWriteMock::poll_flush.next_call(matching!(_)).returns(Poll::Ready(Err(other()))), |u| matches!(futures_io::AsyncWrite::poll_flush(Pin::new(&mut u), &mut cx), Poll::Ready(Err(_))));
        wire!(out, "futures AsyncWrite::poll_close", f::AsyncWriteMock::poll_close.next_call(matching!(_)).returns(Poll::Ready(Err(other()))), |u| matches!(futures_io::AsyncWrite::poll_close(Pin::new(&mut u), &mut cx), Poll::Ready(Err(_))));
        wire!(out, "futures AsyncWrite::poll_write_vectored", f::AsyncWriteMock::poll_write_vectored.next_call(matching!(_, _)).returns(Poll::Ready(Ok(106usize))), |u| matches!(futures_io::AsyncWrite::poll_write_vectored(Pin::new(&mut u), &mut cx, &[]), Poll::Ready(Ok(106))));
        wire!(out, "futures AsyncSeek::poll_seek", f::AsyncSeekMock::poll_seek.next_call(matching!(_, _)).returns(Poll::Ready(Ok(107u64))), |u| matches!(futures_io::AsyncSeek::poll_seek(Pin::new(&mut u), &mut cx, SeekFrom::Start(0)), Poll::Ready(Ok(107))));
        wire!(out, "futures AsyncBufRead::poll_fill_buf", f::AsyncBufReadMock::poll_fill_buf.next_call(matching!(_)).returns(Poll::Ready(Ok::<Vec<u8>, io::Error>(vec![10u8, 9]))), |u| {
            matches!(futures_io::AsyncBufRead::poll_fill_buf(Pin::new(&mut u), &mut cx), Poll::Ready(Ok(b)) if b == [10u8, 9])
        });
        wire!(out, "futures AsyncBufRead::consume", f::AsyncBufReadMock::consume.next_call(matching!(108)).returns(()), |u| {
            futures_io::AsyncBufRead::consume(Pin::new(&mut u), 108);
            true
        });
    }
    out
}
