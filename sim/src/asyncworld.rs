//! Executor world (C16): futures of async mocked methods created, polled in a seeded order, dropped
//! unpolled or midway, by a single-thread executor owned by the harness.

use std::panic::{catch_unwind, AssertUnwindSafe};
use std::sync::Arc;
use std::task::{Context, Poll};

use crate::corpus::*;
use crate::ctx::*;
use crate::exec::{counting_waker, BoxFut};
use crate::spec::*;
use crate::world::*;

pub fn exec_op(run: &Arc<RunCtx>, tid: u8, idx: u16, op: &Op) -> Result<(), Box<dyn std::any::Any + Send>> {
    let Op::AsyncGroup { slot, tasks, plan } = op else { unreachable!() };
    let mock = mock_of(run, *slot);
    let start = begin_op(run, tid, idx, None, mock);
    let Some(h) = get_slot(run, *slot) else {
        end_op(run, tid, idx, start, OpResult::Skipped("slot empty".into()), None, None);
        return Ok(());
    };
    {
        let u: &unimock::Unimock = &h;
        let waker = counting_waker();
        let mut cx = Context::from_waker(&waker);
        let base = run.log(|l| l.tasks.len());
        let mut futs: Vec<Option<BoxFut<'_>>> = vec![];
        for (i, (m, x)) in tasks.iter().enumerate() {
            let before = take_snap(u);
            let fut = async_call(u, *m, *x);
            let after = take_snap(u);
            futs.push(Some(fut));
            run.log(|l| {
                l.tasks.push(TaskRec {
                    op: (tid, idx),
                    index: i as u8,
                    m: *m,
                    x: *x,
                    polls: 0,
                    first_poll: None,
                    call: None,
                    result: None,
                    cancelled: false,
                    after_create: Some(after),
                    before_create: Some(before),
                })
            });
        }
        let mut first_polls = 0u32;
        let mut poll_one = |i: usize, futs: &mut Vec<Option<BoxFut<'_>>>| {
            let Some(fut) = futs[i].as_mut() else { return };
            // the call record of this task is on the stack while (and only while) it is being polled
            let (m, x) = tasks[i];
            let rec = run.log(|l| l.tasks[base + i].call);
            let rec = match rec {
                Some(r) => r,
                None => {
                    let step = run.tick();
                    let pre = take_snap(u);
                    let id = run.log(|l| {
                        let id = l.calls.len() as u32;
                        l.calls.push(CallRec {
                            id,
                            parent: None,
                            parent_inv: None,
                            thread: tid,
                            op: (tid, idx),
                            mock,
                            m,
                            x,
                            y: 0,
                            pre: Some(pre),
                            post: None,
                            prog: None,
                            invoke_step: step,
                            return_step: 0,
                            outcome: None,
                        });
                        l.tasks[base + i].call = Some(id);
                        l.tasks[base + i].first_poll = Some(first_polls);
                        id
                    });
                    first_polls += 1;
                    id
                }
            };
            with_tl(|t| t.call_stack.push(rec));
            let r = catch_unwind(AssertUnwindSafe(|| fut.as_mut().poll(&mut cx)));
            with_tl(|t| {
                t.call_stack.pop();
            });
            let snap = take_snap(u);
            let step = run.tick();
            run.log(|l| {
                l.tasks[base + i].polls += 1;
                let c = &mut l.calls[rec as usize];
                if c.post.is_none() {
                    c.post = Some(snap);
                }
                match &r {
                    Ok(Poll::Ready(val)) => {
                        c.outcome = Some(Outcome::Value(*val));
                        c.return_step = step;
                        l.tasks[base + i].result = Some(Outcome::Value(*val));
                    }
                    Ok(Poll::Pending) => {}
                    Err(p) => {
                        let o = classify_panic(p.as_ref());
                        c.outcome = Some(o.clone());
                        c.return_step = step;
                        l.tasks[base + i].result = Some(o);
                    }
                }
            });
            if !matches!(r, Ok(Poll::Pending)) {
                futs[i] = None;
            }
        };
        for step in plan {
            match step {
                ExecStep::Poll(i) => {
                    let i = *i as usize % tasks.len().max(1);
                    if i < futs.len() {
                        poll_one(i, &mut futs);
                    }
                }
                ExecStep::Drop(i) => {
                    let i = *i as usize % tasks.len().max(1);
                    if i < futs.len() {
                        if let Some(f) = futs[i].take() {
                            drop(f);
                            let step = run.tick();
                            run.log(|l| {
                                l.tasks[base + i].cancelled = true;
                                if let Some(cid) = l.tasks[base + i].call {
                                    let c = &mut l.calls[cid as usize];
                                    if c.outcome.is_none() {
                                        c.outcome = Some(Outcome::Cancelled);
                                        c.return_step = step;
                                    }
                                }
                            });
                        }
                    }
                }
            }
        }
        // everything that is left runs to completion, in index order
        for i in 0..futs.len() {
            let mut guard = 0;
            while futs[i].is_some() && guard < 100 {
                poll_one(i, &mut futs);
                guard += 1;
            }
        }
    }
    release_handle(run, *slot, h);
    end_op(run, tid, idx, start, OpResult::Done, None, None);
    Ok(())
}
