//! Owned-value world (C12): requests for single-use and multi-use instrumented return values,
//! racing from several simulated threads; conservation oracle over construction / clone / drop
//! events.

use std::collections::BTreeMap;
use std::panic::{catch_unwind, AssertUnwindSafe};
use std::sync::Arc;

use crate::corpus::*;
use crate::ctx::*;
use crate::gen::gen_sched;
use crate::oracle::{v, Violation};
use crate::props::{base_stats, Checked, RunStats};
use crate::rng::Rng;
use crate::spec::*;
use crate::values::*;
use crate::world::{self, *};

/// what a successful request delivered: (tracked id, shape ok)
fn request(u: &unimock::Unimock, which: OwnKind, x: u8, hold: &mut Vec<Box<dyn std::any::Any>>) -> (u32, bool) {
    match which {
        OwnKind::Single => {
            let t = u.own_single(x);
            let r = (t.id, t.intact());
            hold.push(Box::new(t));
            r
        }
        OwnKind::Multi => {
            let t = u.own_multi(x);
            let r = (t.id, t.intact());
            hold.push(Box::new(t));
            r
        }
        OwnKind::Opt => match u.own_opt(x) {
            Some(t) => {
                let r = (t.id, t.intact());
                hold.push(Box::new(t));
                r
            }
            None => (0, false),
        },
        OwnKind::Res => match u.own_res(x) {
            Err(t) => {
                let r = (t.id, t.intact());
                hold.push(Box::new(t));
                r
            }
            Ok(_) => (0, false),
        },
        OwnKind::Tup => {
            let (n, t) = u.own_tup(x);
            let r = (t.id, t.intact() && *n == 7);
            hold.push(Box::new(t));
            r
        }
        OwnKind::Tup1 => {
            let (n, t) = u.own_tup1(x);
            let r = (t.id, t.intact() && *n == 7);
            hold.push(Box::new(t));
            r
        }
        OwnKind::Tup3 => {
            let (n, t1, t2) = u.own_tup3(x);
            let r = (t1.id, t1.intact() && t2.intact() && t2.id == t1.id + 1 && *n == 7);
            hold.push(Box::new(t1));
            hold.push(Box::new(t2));
            r
        }
        OwnKind::DeepOpt => match u.own_deep_opt(x) {
            Some(Err(t)) => {
                let r = (t.id, t.intact());
                hold.push(Box::new(t));
                r
            }
            _ => (0, false),
        },
        OwnKind::DeepPoll => match u.own_deep_poll(x) {
            std::task::Poll::Ready(Err(t)) => {
                let r = (t.id, t.intact());
                hold.push(Box::new(t));
                r
            }
            _ => (0, false),
        },
        OwnKind::PollMulti => match u.own_poll_multi(x) {
            std::task::Poll::Ready(Err(t)) => {
                let r = (t.id, t.intact());
                hold.push(Box::new(t));
                r
            }
            _ => (0, false),
        },
        OwnKind::Unit => {
            // nothing to hold: the response itself is what is single-use (id 114 by convention)
            u.own_unit(x);
            (114, true)
        }
        OwnKind::OptMulti => match u.own_opt_multi(x) {
            Some(Err(t)) => {
                let r = (t.id, t.intact());
                hold.push(Box::new(t));
                r
            }
            _ => (0, false),
        },
        OwnKind::Vec => {
            let v = u.own_vec(x);
            let shape_ok = v.len() == 3 && matches!(v[0], Ok(n) if *n == 1) && v[1].is_err() && matches!(v[2], Ok(n) if *n == 3);
            let mut id = 0;
            for e in v {
                if let Err(t) = e {
                    id = t.id;
                    hold.push(Box::new(t));
                }
            }
            (id, shape_ok)
        }
    }
}

pub fn exec_op(run: &Arc<RunCtx>, tid: u8, idx: u16, op: &Op) -> Result<(), Box<dyn std::any::Any + Send>> {
    let Op::Own { slot, which, x, catch, die_with_value, fault } = op else { unreachable!() };
    let mock = mock_of(run, *slot);
    let start = begin_op(run, tid, idx, *fault, mock);
    with_tl(|t| t.cur_val = 2_000_000 + (tid as u32) * 1000 + idx as u32);
    let Some(h) = get_slot(run, *slot) else {
        end_op(run, tid, idx, start, OpResult::Skipped("slot empty".into()), None, None);
        return Ok(());
    };
    // values received stay alive on this frame until the end of the operation
    let mut hold: Vec<Box<dyn std::any::Any>> = vec![];
    let r = catch_unwind(AssertUnwindSafe(|| request(&h, *which, *x, &mut hold)));
    release_handle(run, *slot, h);
    match r {
        Ok((id, shape_ok)) => {
            let res = if shape_ok { OpResult::Value(id as u64) } else { OpResult::Info(format!("bad shape (tracked id {id})")) };
            end_op(run, tid, idx, start, res, None, None);
            if *die_with_value {
                // the receiving thread dies while it owns the value: `hold` is dropped by the unwinding
                let _keep = hold;
                std::panic::resume_unwind(Box::new(UserFault::Body));
            }
            drop(hold);
            Ok(())
        }
        Err(p) => {
            let res = match classify_panic(p.as_ref()) {
                Outcome::MockPanic(s) => OpResult::Panicked(s),
                Outcome::UserPanic(f) => OpResult::UserPanicked(f),
                _ => OpResult::Done,
            };
            end_op(run, tid, idx, start, res, None, None);
            if *catch {
                Ok(())
            } else {
                Err(p)
            }
        }
    }
}

fn kind_of(sp: &Special) -> Option<(OwnKind, u32, bool)> {
    // (request kind, original id, single-use)
    match sp {
        Special::OwnSingle { id, .. } => Some((OwnKind::Single, *id, true)),
        Special::OwnMulti { id, .. } | Special::OwnMultiThen { id, .. } => Some((OwnKind::Multi, *id, false)),
        Special::OwnOpt { id } => Some((OwnKind::Opt, *id, true)),
        Special::OwnRes { id } => Some((OwnKind::Res, *id, true)),
        Special::OwnTup { id, .. } => Some((OwnKind::Tup, *id, false)),
        Special::OwnTup1 { id } => Some((OwnKind::Tup1, *id, true)),
        Special::OwnVec { id } => Some((OwnKind::Vec, *id, true)),
        Special::OwnTup3 { id } => Some((OwnKind::Tup3, *id, true)),
        Special::OwnDeepOpt { id } => Some((OwnKind::DeepOpt, *id, true)),
        Special::OwnDeepPoll { id } => Some((OwnKind::DeepPoll, *id, true)),
        Special::OwnPollMulti { id, .. } => Some((OwnKind::PollMulti, *id, false)),
        Special::OwnOptMulti { id, .. } => Some((OwnKind::OptMulti, *id, false)),
        Special::OwnUnit { id } => Some((OwnKind::Unit, *id, true)),
        _ => None,
    }
}

pub fn gen_c12(base_seed: u64, batch: &str, run: u64, rng: &mut Rng) -> Scenario {
    let faults = batch == "faults";
    let mut pool: Vec<Special> = vec![
        Special::OwnSingle { ordered: rng.chance(1, 3), once: rng.chance(1, 2), then_answers: rng.chance(1, 4), id: 101 },
        Special::OwnMulti {
            quant: *rng.pick(&[Quant::N(1), Quant::N(2), Quant::N(3), Quant::AtLeast(1), Quant::AtLeast(2), Quant::Unq]),
            each_call: rng.chance(1, 2),
            id: 102,
        },
        Special::OwnOpt { id: 103 },
        Special::OwnRes { id: 104 },
        Special::OwnTup { quant: *rng.pick(&[Quant::N(2), Quant::N(3), Quant::AtLeast(1), Quant::Unq]), id: 105 },
        Special::OwnTup1 { id: 106 },
        Special::OwnVec { id: 107 },
        Special::OwnTup3 { id: 108 },
        Special::OwnDeepOpt { id: 110 },
        Special::OwnDeepPoll { id: 111 },
        Special::OwnPollMulti { quant: *rng.pick(&[Quant::N(2), Quant::N(3), Quant::AtLeast(1), Quant::Unq]), id: 112 },
        Special::OwnOptMulti { quant: *rng.pick(&[Quant::N(2), Quant::N(3), Quant::AtLeast(1), Quant::Unq]), id: 113 },
        Special::OwnUnit { id: 114 },
    ];
    // OwnMulti through some_call needs an explicit multi-use quantifier
    if let Special::OwnMulti { quant, each_call, .. } = &mut pool[1] {
        if !*each_call && matches!(quant, Quant::Unq | Quant::Once) {
            *quant = Quant::N(2);
        }
    }
    // a chain of two stored values: the first one is done after n deliveries and still stays stored
    if rng.chance(1, 3) {
        pool[1] = Special::OwnMultiThen { n: rng.range(1, 3) as u32, each_call: rng.chance(1, 2), id: 102, id2: 115 };
    }
    rng.shuffle(&mut pool);
    pool.truncate(rng.range(1, 3));
    // partial mocks: a spent single-use value must still panic, not fall through to the real function
    let cfg = Config { specials: pool.clone(), partial: rng.chance(1, 3), ..Default::default() };
    let n_threads = rng.range(1, 4);
    let mut threads: Vec<Vec<Op>> = vec![vec![]; n_threads];
    let share_original = rng.chance(1, 3);
    for t in 1..n_threads {
        threads[0].push(Op::Clone { src: 0, dst: t as u8 });
    }
    let prelude = threads[0].len();
    for t in 0..n_threads {
        let mut dying = false;
        if faults && t != 0 && rng.chance(1, 4) {
            // this thread owns its clone on its stack and may die holding a value
            threads[t].push(Op::Hold { slot: t as u8 });
            dying = true;
        }
        let n = rng.usize(4);
        for _ in 0..n {
            let (which, _, _) = kind_of(rng.pick(&pool)).unwrap();
            let slot = if t == 0 || share_original || dying { 0 } else { t as u8 };
            let die = dying && rng.chance(1, 2);
            let fault = if faults && rng.chance(1, 6) { Some(Fault::ClonePanic) } else { None };
            threads[t].push(Op::Own { slot, which, x: rng.below(4) as u8, catch: true, die_with_value: die, fault });
        }
    }
    if n_threads > 1 && !share_original && rng.chance(1, 6) {
        // the original goes first and quietly; the last instance of the mock - and with it whatever is
        // still stored - is released by a clone on a thread that did not create the mock
        threads[0].push(Op::NoVerifyInDrop { slot: 0 });
        threads[0].push(Op::Drop { slot: 0 });
        for t in 1..n_threads {
            threads[t].push(Op::Wait { mask: 1 });
            threads[t].push(Op::Drop { slot: t as u8 });
        }
    } else {
        if n_threads > 1 {
            threads[0].push(Op::Wait { mask: 0xfe });
        }
        for t in 1..n_threads {
            threads[0].push(Op::Drop { slot: t as u8 });
        }
        threads[0].push(if rng.chance(1, 2) { Op::Drop { slot: 0 } } else { Op::Verify { slot: 0 } });
    }
    Scenario {
        prop: "C12".into(),
        base_seed,
        run,
        batch: batch.into(),
        config: cfg,
        config2: None,
        threads,
        sched: gen_sched(rng, true),
        knobs: vec![("prelude".into(), prelude as i64)],
    }
}

pub fn check_c12(scn: &Scenario) -> Checked {
    let res = world::run(scn);
    let mut stats: RunStats = base_stats(scn, &res);
    if res.timed_out || res.sched.deadlock {
        return Checked { violations: vec![], stats, harness_error: Some("run timed out or deadlocked".into()) };
    }
    if let Some(e) = &res.build_error {
        return Checked { violations: vec![], stats, harness_error: Some(format!("mock construction failed: {e}")) };
    }
    let mut violations: Vec<Violation> = vec![];
    let log = &res.log;
    let mut created: BTreeMap<u32, u32> = Default::default();
    let mut drops: BTreeMap<u32, Vec<&TrackEv>> = Default::default();
    let mut clones_of: BTreeMap<u32, Vec<u32>> = Default::default();
    for e in &log.track {
        match e.kind {
            TrackKind::Created => *created.entry(e.id).or_default() += 1,
            TrackKind::ClonedFrom(o) => {
                *created.entry(e.id).or_default() += 1;
                clones_of.entry(o).or_default().push(e.id);
            }
            TrackKind::Dropped => drops.entry(e.id).or_default().push(e),
        }
    }
    // teardown windows (any instance): the stored values live in the shared state
    let mut teardown: Vec<(u64, u64)> = vec![];
    for o in &log.ops {
        if let Some(Op::Drop { .. } | Op::Verify { .. } | Op::Report { .. }) = scn.threads.get(o.thread as usize).and_then(|t| t.get(o.index as usize)) {
            if !matches!(o.result, OpResult::Skipped(_)) {
                teardown.push((o.start_step, o.end_step));
            }
        }
    }
    // thread-end drops of held instances (recorded with index >= ops.len())
    for o in &log.ops {
        if o.index as usize >= scn.threads.get(o.thread as usize).map(|t| t.len()).unwrap_or(0) {
            teardown.push((o.start_step, o.end_step));
        }
    }
    let dying_windows: Vec<u64> = vec![];
    let _ = dying_windows;
    // every constructed value (originals, clones, fresh answers) is dropped exactly once
    for (id, n) in &created {
        let d = drops.get(id).map(|d| d.len()).unwrap_or(0);
        if *n != 1 || d != 1 {
            violations.push(v("C12", "dropped-exactly-once", "conservation", format!("value {id}: constructed {n} time(s), dropped {d} time(s)")));
            break;
        }
    }
    for sp in &scn.config.specials {
        let Some((which, id, single)) = kind_of(sp) else { continue };
        let then_answers = matches!(sp, Special::OwnSingle { then_answers: true, .. });
        // requests for this method, in time order
        let mut reqs: Vec<&OpRec> = log
            .ops
            .iter()
            .filter(|o| matches!(scn.threads.get(o.thread as usize).and_then(|t| t.get(o.index as usize)), Some(Op::Own { which: w, .. }) if *w == which))
            .filter(|o| !matches!(o.result, OpResult::Skipped(_)))
            .collect();
        reqs.sort_by_key(|o| o.start_step);
        let delivered: Vec<&&OpRec> = reqs.iter().filter(|o| matches!(o.result, OpResult::Value(val) if val as u32 == id)).collect();
        let key = format!("{which:?}");
        for o in &reqs {
            if let OpResult::Info(msg) = &o.result {
                violations.push(v("C12", "request-panics-or-delivers-whole-value", key.clone(), format!("a request returned a malformed composite instead of panicking: {msg}")));
                break;
            }
        }
        if single {
            // handed to exactly one caller: if anybody asked (and no fault interfered), somebody got it
            let clean = reqs.iter().all(|o| matches!(o.result, OpResult::Value(_) | OpResult::Panicked(_)));
            if clean && !reqs.is_empty() && delivered.is_empty() {
                violations.push(v(
                    "C12",
                    "single-use-delivered-to-exactly-one",
                    key.clone(),
                    format!("{} request(s) were made for the single-use value {id} and every one of them failed: {:?}", reqs.len(), reqs.iter().map(|o| &o.result).collect::<Vec<_>>()),
                ));
            }
            if delivered.len() > 1 {
                violations.push(v("C12", "single-use-delivered-once", key.clone(), format!("single-use value {id} was handed to {} callers", delivered.len())));
            }
            for o in &reqs {
                // a request that started after the value had been handed out must panic (or, with a
                // trailing then().answers(..), get a fresh value - never the stored one again)
                let after_delivery = delivered.iter().any(|d| d.end_step < o.start_step);
                if after_delivery {
                    let ok = match &o.result {
                        OpResult::Panicked(_) => true,
                        OpResult::Value(val) => then_answers && *val as u32 != id,
                        OpResult::UserPanicked(_) => true,
                        _ => false,
                    };
                    if !ok {
                        violations.push(v("C12", "later-requests-panic", key.clone(), format!("request after the single-use value {id} was handed out: {:?}", o.result)));
                        break;
                    }
                }
            }
            if clones_of.contains_key(&id) {
                violations.push(v("C12", "single-use-never-cloned", key.clone(), format!("single-use value {id} was cloned")));
            }
        } else {
            // repeated use: every delivery is a clone of the stored value; the stored value stays
            let mut bound = match sp {
                Special::OwnMulti { quant, .. } | Special::OwnTup { quant, .. } | Special::OwnPollMulti { quant, .. } | Special::OwnOptMulti { quant, .. } => match quant {
                    Quant::N(n) => Some(*n),
                    Quant::Once => Some(1),
                    _ => None,
                },
                _ => None,
            };
            if let Special::OwnMulti { each_call: false, quant: Quant::Unq | Quant::Once, .. } = sp {
                bound = Some(2);
            }
            let mut my_clones = clones_of.get(&id).cloned().unwrap_or_default();
            let mut stored = vec![id];
            if let Special::OwnMultiThen { id2, .. } = sp {
                my_clones.extend(clones_of.get(id2).cloned().unwrap_or_default());
                stored.push(*id2);
            }
            let mut successes = 0u32;
            for (k, o) in reqs.iter().enumerate() {
                match &o.result {
                    OpResult::Value(val) => {
                        successes += 1;
                        if !my_clones.contains(&(*val as u32)) {
                            violations.push(v("C12", "repeated-use-delivers-clones", key.clone(), format!("delivery #{} of the multi-use value {id} handed out {val}, which is not a clone of it (clones: {my_clones:?})", k + 1)));
                            break;
                        }
                    }
                    OpResult::Panicked(msg) => {
                        // within the quantified count (or unbounded): must not fail
                        let sequential = reqs.iter().all(|p| p.end_step < o.start_step || p.start_step >= o.start_step);
                        let within = bound.map(|b| (k as u32) < b).unwrap_or(true);
                        if within && sequential {
                            violations.push(v("C12", "repeated-use-keeps-the-original", key.clone(), format!("request #{} for the multi-use value {id} failed: {msg}", k + 1)));
                            break;
                        }
                    }
                    _ => {}
                }
            }
            let _ = successes;
            // the stored original is released only by a teardown (or by the harness at the end)
            for id in stored {
                if let Some(d) = drops.get(&id).and_then(|d| d.first()) {
                    let ok = d.step == u64::MAX || teardown.iter().any(|(s, e)| *s <= d.step && d.step <= *e) || d.panicking;
                    if !ok {
                        violations.push(v("C12", "stored-value-intact-until-teardown", key.clone(), format!("the stored multi-use value {id} was dropped at step {} outside any teardown", d.step)));
                    }
                }
            }
        }
    }
    // probes
    let p = |st: &mut RunStats, k: &str, hit: bool| {
        if hit {
            *st.probes.entry(k.to_string()).or_default() += 1;
        }
    };
    let own_ops: Vec<&OpRec> = log.ops.iter().filter(|o| matches!(scn.threads.get(o.thread as usize).and_then(|t| t.get(o.index as usize)), Some(Op::Own { .. }))).collect();
    let overlapping = own_ops.iter().any(|a| own_ops.iter().any(|b| a.thread != b.thread && a.start_step < b.end_step && b.start_step < a.end_step));
    p(&mut stats, "requests_overlapped_in_time", overlapping);
    p(&mut stats, "single_use_requested_twice_or_more", own_ops.iter().filter(|o| matches!(o.result, OpResult::Panicked(ref m) if m.contains("more than once"))).count() > 0);
    p(&mut stats, "receiver_thread_died_holding_value", log.track.iter().any(|e| e.kind == TrackKind::Dropped && e.panicking));
    p(&mut stats, "clone_panic_fired", own_ops.iter().any(|o| matches!(o.result, OpResult::UserPanicked(UserFault::Clone))));
    p(&mut stats, "preempted_at_value_slot_lock", res.sched.switched[3] + res.sched.switched[12] > 0);
    stats.calls = own_ops.len() as u64;
    stats.nontrivial = own_ops.len() >= 1;
    Checked { violations, stats, harness_error: None }
}
