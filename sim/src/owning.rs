//! Owned-value world (C12) operations.
use std::sync::Arc;
use crate::ctx::*;
use crate::spec::*;

pub fn exec_op(_run: &Arc<RunCtx>, _tid: u8, _idx: u16, _op: &Op) -> Result<(), Box<dyn std::any::Any + Send>> {
    unimplemented!("owning world")
}
