//! Seeded generators: configurations, histories, fault plans. Everything is a function of the `Rng`
//! handed in. A small sequential predictor (`Steer`) is used *only to steer* histories towards the
//! interesting boundaries; oracles never use it.

use crate::model::*;
use crate::rng::Rng;
use crate::sched::ALL_SITES;
use crate::spec::*;

pub const PLAIN_REF: &[M] = &[M::A0, M::A1, M::B0, M::B1, M::B2, M::B3, M::Z0];

#[derive(Clone, Debug)]
pub struct CfgOpts {
    pub max_methods: usize,
    pub max_patterns: usize,
    /// lower bounds (1 unless a "wide" configuration is wanted)
    pub min_methods: usize,
    pub min_patterns: usize,
    /// counts around powers of two up to 300 and chains of up to `max_segs` segments ("scale" runs)
    pub big: bool,
    /// percentage of methods configured with next_call
    pub ordered_pct: u64,
    pub allow_partial: bool,
    /// include Gm (a `&mut self` method) in the pool
    pub with_mut: bool,
    /// weights of response kinds: returns, default, answers(static), answers_arc, panics, unmocked, default_impl
    pub resp_weights: [u32; 7],
    pub max_segs: usize,
    pub zero_counts: bool,
    pub nested_calls: bool,
    pub pool: Vec<M>,
}

impl Default for CfgOpts {
    fn default() -> Self {
        Self {
            max_methods: 4,
            max_patterns: 5,
            min_methods: 1,
            min_patterns: 1,
            big: false,
            ordered_pct: 25,
            allow_partial: true,
            with_mut: true,
            resp_weights: [40, 6, 2, 22, 6, 8, 8],
            max_segs: 3,
            zero_counts: true,
            nested_calls: true,
            pool: PLAIN_REF.to_vec(),
        }
    }
}

pub fn gen_pred(rng: &mut Rng, domain: u32, prev: &[u32]) -> u32 {
    let all = if domain == 16 { 0xffff } else { 0xf };
    let bit = |rng: &mut Rng| 1u32 << rng.below(domain as u64);
    let row = |rng: &mut Rng| {
        // for two-argument methods: "x == k" or "y == k"
        let k = rng.below(4) as u32;
        if rng.chance(1, 2) {
            (0..4).fold(0u32, |a, y| a | 1 << (k + 4 * y))
        } else {
            0xf << (4 * k)
        }
    };
    let p = match rng.weighted(&[25, 25, 10, 20, 12, 8]) {
        0 => all,
        1 => bit(rng),
        2 => all & !bit(rng),
        3 => (rng.next() as u32) & all,
        4 => {
            // superset / subset of an earlier predicate of the same method (overlaps)
            if prev.is_empty() {
                bit(rng) | bit(rng)
            } else {
                let q = *rng.pick(prev);
                if rng.chance(1, 2) {
                    q | bit(rng)
                } else {
                    q & !bit(rng)
                }
            }
        }
        _ => {
            if domain == 16 {
                row(rng)
            } else {
                bit(rng) | bit(rng)
            }
        }
    };
    p & all
}

fn gen_prog(rng: &mut Rng, callable: &[M], enabled: bool) -> Prog {
    let mut calls = vec![];
    if enabled && !callable.is_empty() {
        let n = rng.weighted(&[55, 30, 12, 3]);
        for _ in 0..n {
            calls.push((*rng.pick(callable), rng.below(4) as u8, rng.below(4) as u8));
        }
    }
    Prog { calls }
}

fn gen_resp(rng: &mut Rng, o: &CfgOpts, callable: &[M]) -> Resp {
    match rng.weighted(&o.resp_weights) {
        0 => Resp::Returns,
        1 => Resp::ReturnsDefault,
        2 => Resp::Answers(gen_prog(rng, callable, o.nested_calls)),
        3 => Resp::AnswersArc(gen_prog(rng, callable, o.nested_calls)),
        4 => Resp::Panics,
        5 => Resp::Unmocked,
        _ => Resp::DefaultImpl,
    }
}

fn gen_count(rng: &mut Rng, zero: bool, big: bool) -> u32 {
    if zero && rng.chance(1, 10) {
        0
    } else if big && rng.chance(2, 3) {
        // around the places where small fixed-size representations end
        *rng.pick(&[7u32, 8, 9, 15, 16, 17, 31, 32, 33, 63, 64, 65, 127, 128, 129, 255, 256, 257, 300])
    } else {
        1 + rng.weighted(&[50, 35, 15]) as u32
    }
}

/// chain for one pattern
pub fn gen_segs(rng: &mut Rng, o: &CfgOpts, ordered: bool, top_level: bool, callable: &[M]) -> Vec<Seg> {
    let n = if o.big && o.max_segs > 3 { rng.range(1, o.max_segs) } else { 1 + rng.weighted(&[60, 28, 12]).min(o.max_segs - 1) };
    let mut segs = vec![];
    for i in 0..n {
        let last = i + 1 == n;
        let resp = gen_resp(rng, o, callable);
        let quant = if !last {
            if rng.chance(1, 3) {
                Quant::Once
            } else {
                Quant::N(gen_count(rng, o.zero_counts, o.big))
            }
        } else if ordered {
            match rng.weighted(&[40, 25, 35]) {
                0 => Quant::Unq,
                1 => Quant::Once,
                _ => Quant::N(gen_count(rng, o.zero_counts, o.big)),
            }
        } else {
            match rng.weighted(&[35, 15, 25, 25]) {
                0 => Quant::Unq,
                1 => Quant::Once,
                2 => Quant::N(gen_count(rng, o.zero_counts, o.big)),
                _ => Quant::AtLeast(gen_count(rng, true, o.big)),
            }
        };
        segs.push(Seg { resp, quant });
    }
    let _ = top_level;
    segs
}

pub fn gen_config(rng: &mut Rng, o: &CfgOpts) -> Config {
    let mut pool = o.pool.clone();
    if o.with_mut && rng.chance(1, 4) {
        pool.push(M::Gm);
    }
    rng.shuffle(&mut pool);
    let n_methods = rng.range(o.min_methods.min(pool.len()).max(1), o.max_methods.min(pool.len()));
    let methods: Vec<M> = pool[..n_methods].to_vec();
    // nested calls may target any `&self` plain method (mentioned or not)
    let callable: Vec<M> = PLAIN_REF.to_vec();

    // per method: list of clauses (each with 1..k patterns)
    let mut per_method: Vec<Vec<ClauseSpec>> = vec![];
    for m in &methods {
        let ordered = rng.chance(o.ordered_pct, 100);
        let n_pat = if o.min_patterns <= 1 && rng.chance(1, 12) {
            0
        } else {
            rng.range(o.min_patterns.max(1), o.max_patterns)
        };
        let mut clauses = vec![];
        let mut preds: Vec<u32> = vec![];
        let mut left = n_pat;
        let generic = matches!(m, M::GenU8 | M::GenU16 | M::GmU8 | M::GmU16 | M::GpU8 | M::GpU16 | M::GiU8 | M::GiU16 | M::GnU8 | M::GnU16);
        while left > 0 {
            if generic {
                // generic instantiations are built through a reduced builder path: one segment
                let pred = gen_pred(rng, m.domain(), &preds);
                preds.push(pred);
                let resp = if rng.chance(2, 3) { Resp::Returns } else { Resp::AnswersArc(Prog::default()) };
                let (form, quant) = if ordered {
                    (Form::NextCall, if rng.chance(1, 2) { Quant::Unq } else { Quant::N(gen_count(rng, false, false)) })
                } else {
                    (Form::EachCall, *rng.pick(&[Quant::Unq, Quant::Once, Quant::N(2), Quant::AtLeast(1)]))
                };
                let resp = if ordered { Resp::Returns } else { resp };
                clauses.push(ClauseSpec { m: *m, form, patterns: vec![PatternSpec { pred, has_matcher: true, macro_form: false, segs: vec![Seg { resp, quant }] }] });
                left -= 1;
            } else if ordered {
                let pred = gen_pred(rng, m.domain(), &preds);
                preds.push(pred);
                clauses.push(ClauseSpec {
                    m: *m,
                    form: Form::NextCall,
                    patterns: vec![PatternSpec {
                        pred,
                        has_matcher: true, macro_form: false,
                        segs: gen_segs(rng, o, true, true, &callable),
                    }],
                });
                left -= 1;
            } else {
                match rng.weighted(&[30, 35, 35]) {
                    0 => {
                        let pred = gen_pred(rng, m.domain(), &preds);
                        preds.push(pred);
                        clauses.push(ClauseSpec {
                            m: *m,
                            form: Form::SomeCall,
                            patterns: vec![PatternSpec {
                                pred,
                                has_matcher: true, macro_form: false,
                                segs: gen_segs(rng, o, false, true, &callable),
                            }],
                        });
                        left -= 1;
                    }
                    1 => {
                        let pred = gen_pred(rng, m.domain(), &preds);
                        preds.push(pred);
                        clauses.push(ClauseSpec {
                            m: *m,
                            form: Form::EachCall,
                            patterns: vec![PatternSpec {
                                pred,
                                has_matcher: true, macro_form: false,
                                segs: gen_segs(rng, o, false, true, &callable),
                            }],
                        });
                        left -= 1;
                    }
                    _ => {
                        let k = rng.range(1, left.min(3));
                        let mut patterns = vec![];
                        for _ in 0..k {
                            let pred = gen_pred(rng, m.domain(), &preds);
                            preds.push(pred);
                            let segs = if rng.chance(1, 40) {
                                vec![]
                            } else {
                                gen_segs(rng, o, false, false, &callable)
                            };
                            patterns.push(PatternSpec {
                                pred,
                                has_matcher: true, macro_form: false,
                                segs,
                            });
                        }
                        clauses.push(ClauseSpec {
                            m: *m,
                            form: Form::Stub,
                            patterns,
                        });
                        left -= k;
                    }
                }
            }
        }
        per_method.push(clauses);
    }
    // interleave the methods' clause lists, keeping each method's own order
    let mut clauses = vec![];
    let mut cursors = vec![0usize; per_method.len()];
    loop {
        let avail: Vec<usize> = (0..per_method.len())
            .filter(|i| cursors[*i] < per_method[*i].len())
            .collect();
        if avail.is_empty() {
            break;
        }
        let i = *rng.pick(&avail);
        clauses.push(per_method[i][cursors[i]].clone());
        cursors[i] += 1;
    }
    // a share of the matchers is written with the real `matching!` macro
    if rng.chance(1, 2) {
        for c in clauses.iter_mut() {
            if !matches!(c.m, M::A0 | M::A1 | M::B0 | M::B1 | M::B3 | M::B2 | M::S0 | M::S1 | M::S2) {
                // (no table for zero-sized, generic and special inputs)
                continue;
            }
            for p in c.patterns.iter_mut() {
                if rng.chance(1, 3) {
                    if c.m.info().two_args {
                        p.pred = *rng.pick(crate::build::MACRO_PREDS_2);
                    }
                    p.macro_form = true;
                }
            }
        }
    }
    let mut real_progs = vec![];
    let mut default_progs = vec![];
    for m in ALL_M {
        let info = m.info();
        if info.has_unmock {
            real_progs.push((*m, gen_prog(rng, &callable, o.nested_calls)));
        }
        if info.has_default {
            let body_callable: &[M] = match m {
                M::B0 | M::B1 => &[M::B2, M::B3],
                M::Gp => &[M::Gm],
                M::VProv => &[M::VReq],
                M::RcProv => &[M::RcReq],
                M::ArcProv => &[M::ArcReq],
                M::PinProv => &[M::PinReq],
                M::V2Prov => &[M::V2Req],
                M::GpU8 | M::GpU16 => &[M::GmU8, M::GmU16],
                M::Rc2Prov => &[M::Rc2Req],
                M::Arc2Prov => &[M::Arc2Req],
                _ => &[],
            };
            default_progs.push((*m, gen_prog(rng, body_callable, o.nested_calls)));
        }
    }
    Config {
        partial: o.allow_partial && rng.chance(1, 3),
        clauses,
        nest_seed: if rng.chance(1, 5) { 0 } else { 1 + rng.below(1 << 40) },
        real_progs,
        default_progs,
        specials: vec![],
    }
}

// ---------------------------------------------------------------------------------------------
// steering predictor (sequential, approximate; never an oracle)

#[derive(Clone)]
pub struct Steer {
    pub flat: Flat,
    pub counts: Vec<u32>,
    pub ordered_index: u32,
    pub deviated: bool,
}

#[derive(Clone, Copy, Debug, PartialEq, Eq)]
pub enum Pred {
    /// answered by pattern uid
    Pattern(u16),
    /// goes to a real fn / default body / mock panic for lack of a pattern
    Fallthrough,
    MockPanic,
}

impl Steer {
    pub fn new(cfg: &Config) -> Self {
        let flat = cfg.flatten();
        let n = flat.patterns.len();
        Self {
            flat,
            counts: vec![0; n],
            ordered_index: 0,
            deviated: false,
        }
    }

    pub fn first_accepting(&self, m: M, x: u8, y: u8) -> Option<u16> {
        self.flat
            .of_method(m)
            .into_iter()
            .find(|p| accepts(p, x, y))
            .map(|p| p.uid)
    }

    /// would this call panic (mock-induced), judged sequentially and ignoring nested calls?
    pub fn predict(&self, cfg: &Config, m: M, x: u8, y: u8) -> Pred {
        if !self.flat.mentioned(m) {
            return match route_unmentioned(cfg, m) {
                Route::MockPanic | Route::MissingRealFn => Pred::MockPanic,
                _ => Pred::Fallthrough,
            };
        }
        if self.flat.ordered(m) {
            match slot_owner(&self.flat, self.ordered_index) {
                Some(p) if p.m == m && accepts(p, x, y) => self.predict_resp(p),
                _ => Pred::MockPanic,
            }
        } else {
            match self.first_accepting(m, x, y) {
                Some(uid) => self.predict_resp(&self.flat.patterns[uid as usize]),
                None => match route_unmatched(cfg, m) {
                    Route::RealFn => Pred::Fallthrough,
                    _ => Pred::MockPanic,
                },
            }
        }
    }

    fn predict_resp(&self, p: &FlatPattern) -> Pred {
        let k = self.counts[p.uid as usize] + 1;
        let seg = match assigned_segment(p, k) {
            Assigned::Seg(i) => i,
            Assigned::NoResponse => return Pred::MockPanic,
            Assigned::Unconstrained => p.spec.segs.len() - 1,
        };
        let info = p.m.info();
        let bad = match &p.spec.segs[seg].resp {
            Resp::Panics => true,
            Resp::Unmocked => !info.has_unmock || matches!(info.recv, Recv::Mut | Recv::Pin),
            Resp::DefaultImpl => !info.has_default,
            Resp::Returns => seg_single_use(p, seg) && k > 1,
            _ => false,
        };
        if bad {
            Pred::MockPanic
        } else {
            Pred::Pattern(p.uid)
        }
    }

    pub fn apply(&mut self, m: M, x: u8, y: u8) {
        if !self.flat.mentioned(m) {
            return;
        }
        if self.flat.ordered(m) {
            let owner = slot_owner(&self.flat, self.ordered_index).map(|p| (p.uid, p.m, accepts(p, x, y)));
            self.ordered_index += 1;
            match owner {
                Some((uid, pm, true)) if pm == m => self.counts[uid as usize] += 1,
                _ => self.deviated = true,
            }
        } else if let Some(uid) = self.first_accepting(m, x, y) {
            self.counts[uid as usize] += 1;
        }
    }

    /// an argument pair accepted first by pattern `uid` (if any)
    pub fn args_for(&self, rng: &mut Rng, uid: u16) -> Option<(u8, u8)> {
        let p = &self.flat.patterns[uid as usize];
        let mut cands = vec![];
        let ys = if p.m.info().two_args { 4 } else { 1 };
        for y in 0..ys {
            for x in 0..4 {
                if p.form.ordered() {
                    if accepts(p, x, y) {
                        cands.push((x, y));
                    }
                } else if self.first_accepting(p.m, x, y) == Some(uid) {
                    cands.push((x, y));
                }
            }
        }
        if cands.is_empty() {
            None
        } else {
            Some(*rng.pick(&cands))
        }
    }
}

// ---------------------------------------------------------------------------------------------
// histories

#[derive(Clone, Debug)]
pub struct HistOpts {
    pub max_threads: usize,
    pub max_calls: usize,
    /// 0 = none; otherwise about one fault per `fault_every` calls
    pub fault_every: u64,
    /// avoid calls the predictor says would be mock panics (C03)
    pub avoid_mock_panics: bool,
    /// weights for how the original is finished: drop, verify, report
    pub finish_weights: [u32; 3],
    pub fine: bool,
    /// probability (percent) that a call is routed through a clone rather than the original
    pub via_clone_pct: u64,
    pub steer_bounds: bool,
    /// methods called at random besides the mentioned ones
    pub pool: Vec<M>,
}

impl Default for HistOpts {
    fn default() -> Self {
        Self {
            max_threads: 4,
            max_calls: 12,
            fault_every: 0,
            avoid_mock_panics: false,
            finish_weights: [60, 30, 10],
            fine: false,
            via_clone_pct: 50,
            steer_bounds: true,
            pool: PLAIN_REF.to_vec(),
        }
    }
}

pub fn gen_sched(rng: &mut Rng, fine: bool) -> SchedSpec {
    let strategy = match rng.weighted(&[40, 35, 25]) {
        0 => Strategy::Uniform,
        1 => Strategy::Sticky(*rng.pick(&[50u8, 80, 95])),
        _ => Strategy::Pct(1 + rng.below(3) as u8),
    };
    let sites = if !fine || rng.chance(2, 3) {
        ALL_SITES
    } else {
        // a random subset of site kinds as preemption points
        let s = (rng.next() as u16) & ALL_SITES;
        if s == 0 {
            ALL_SITES
        } else {
            s
        }
    };
    SchedSpec {
        fine,
        strategy,
        seed: rng.next(),
        sites,
        choices: vec![],
    }
}

fn random_args(rng: &mut Rng, m: M) -> (u8, u8) {
    let x = rng.below(4) as u8;
    let y = if m.info().two_args { rng.below(4) as u8 } else { 0 };
    (x, y)
}

fn gen_fault(rng: &mut Rng, st: &Steer, m: M, x: u8, y: u8) -> Option<Fault> {
    match rng.weighted(&[45, 55]) {
        0 => {
            // matcher panic at a pattern no later than the first accepting one
            let pats = st.flat.of_method(m);
            // sometimes the trap sits on a matcher that must not be evaluated at all
            if rng.chance(1, 4) && pats.len() >= 2 {
                let idle: Vec<u16> = if st.flat.ordered(m) {
                    match slot_owner(&st.flat, st.ordered_index) {
                        Some(p) if p.m == m => pats.iter().filter(|q| q.uid != p.uid).map(|q| q.uid).collect(),
                        _ => vec![],
                    }
                } else {
                    match st.first_accepting(m, x, y) {
                        Some(uid) => {
                            let first = st.flat.patterns[uid as usize].index;
                            pats.iter().filter(|q| q.index > first).map(|q| q.uid).collect()
                        }
                        None => vec![],
                    }
                };
                if !idle.is_empty() {
                    return Some(Fault::MatcherMustNotRun { uid: *rng.pick(&idle) });
                }
            }
            if !pats.is_empty() && st.flat.ordered(m) {
                // the matcher of the pattern owning the current slot
                return match slot_owner(&st.flat, st.ordered_index) {
                    Some(p) if p.m == m => Some(Fault::MatcherPanic { uid: p.uid }),
                    _ => Some(Fault::ProgPanic { nth: 0, pos: rng.below(3) as u8 }),
                };
            }
            if pats.is_empty() {
                return Some(Fault::ProgPanic { nth: 0, pos: rng.below(3) as u8 });
            }
            let limit = match st.first_accepting(m, x, y) {
                Some(uid) => st.flat.patterns[uid as usize].index,
                None => pats.len() - 1,
            };
            let idx = rng.usize(limit + 1);
            Some(Fault::MatcherPanic { uid: pats[idx].uid })
        }
        _ => Some(Fault::ProgPanic {
            nth: rng.weighted(&[75, 25]) as u8,
            pos: rng.below(3) as u8,
        }),
    }
}

/// The coarse-world history: thread 0 creates clones, every thread makes calls through the instance
/// it was assigned (or the shared original), clones are dropped, thread 0 waits and finishes the
/// original.
pub fn gen_history(rng: &mut Rng, cfg: &Config, o: &HistOpts) -> (Vec<Vec<Op>>, usize) {
    let n_threads = if rng.chance(2, 5) { 1 } else { rng.range(1, o.max_threads) };
    let mut st = Steer::new(cfg);
    let callable: Vec<M> = {
        // methods worth calling: mentioned ones (weight) plus the plain pool
        let mut v = st.flat.methods.clone();
        v.extend(st.flat.methods.iter().copied());
        v.extend(st.flat.methods.iter().copied());
        v.extend(o.pool.iter().copied());
        if st.flat.methods.contains(&M::Gm) {
            v.push(M::Gm);
        }
        v
    };
    let mut threads: Vec<Vec<Op>> = vec![vec![]; n_threads];
    // thread t > 0 uses clone slot t; thread 0 may use extra clone slots n_threads.. as well
    let extra_clones = rng.usize(3);
    let mut clone_slots: Vec<u8> = vec![];
    for t in 1..n_threads {
        let src = if clone_slots.is_empty() || rng.chance(2, 3) { 0 } else { *rng.pick(&clone_slots) };
        threads[0].push(Op::Clone { src, dst: t as u8 });
        clone_slots.push(t as u8);
    }
    for e in 0..extra_clones {
        let dst = (n_threads + e) as u8;
        let src = if clone_slots.is_empty() || rng.chance(1, 2) { 0 } else { *rng.pick(&clone_slots) };
        threads[0].push(Op::Clone { src, dst });
        clone_slots.push(dst);
    }
    let prelude = threads[0].len();
    let n_calls = rng.usize(o.max_calls + 1);
    // target pattern for boundary steering: aim a pattern's count at bound-1 / bound / bound+1
    let mut last_args: Vec<(M, u8, u8)> = vec![];
    for _ in 0..n_calls {
        let t = rng.usize(n_threads);
        let (m, x, y) = {
            let choice = rng.weighted(&[30, 30, 40]);
            if choice == 0 && !last_args.is_empty() {
                *rng.pick(&last_args)
            } else if choice == 1 && !st.flat.patterns.is_empty() && o.steer_bounds {
                // a pattern that still needs matches (or one to over-match)
                let p = rng.pick(&st.flat.patterns).clone();
                if p.form.ordered() {
                    // next expected slot
                    match slot_owner(&st.flat, st.ordered_index) {
                        Some(q) => {
                            let q = q.clone();
                            match st.args_for(rng, q.uid) {
                                Some((x, y)) => (q.m, x, y),
                                None => {
                                    let (x, y) = random_args(rng, q.m);
                                    (q.m, x, y)
                                }
                            }
                        }
                        None => {
                            let (x, y) = random_args(rng, p.m);
                            (p.m, x, y)
                        }
                    }
                } else {
                    match st.args_for(rng, p.uid) {
                        Some((x, y)) => (p.m, x, y),
                        None => {
                            let (x, y) = random_args(rng, p.m);
                            (p.m, x, y)
                        }
                    }
                }
            } else {
                let m = *rng.pick(&callable);
                let (x, y) = random_args(rng, m);
                (m, x, y)
            }
        };
        if o.avoid_mock_panics && st.predict(cfg, m, x, y) == Pred::MockPanic {
            continue;
        }
        let fault = if o.fault_every > 0 && rng.chance(1, o.fault_every) {
            gen_fault(rng, &st, m, x, y)
        } else if o.fault_every > 0 && m.info().recv == Recv::Ref && rng.chance(1, 12) {
            // the call comes from a destructor running during unwinding
            Some(Fault::WhileUnwinding)
        } else {
            None
        };
        if fault.is_none() || matches!(fault, Some(Fault::ProgPanic { .. }) | Some(Fault::MatcherMustNotRun { .. }) | Some(Fault::WhileUnwinding)) {
            st.apply(m, x, y);
        }
        last_args.push((m, x, y));
        // which instance: own clone, the original, or any clone
        let slot = if m.info().recv != Recv::Ref {
            // exclusive access: use an instance nobody else touches
            if t == 0 {
                0
            } else {
                t as u8
            }
        } else if t == 0 {
            if !clone_slots.is_empty() && rng.chance(o.via_clone_pct, 100) {
                *rng.pick(&clone_slots)
            } else {
                0
            }
        } else if rng.chance(o.via_clone_pct, 100) {
            t as u8
        } else if rng.chance(1, 2) {
            0
        } else {
            *rng.pick(&clone_slots)
        };
        threads[t].push(Op::Call {
            slot,
            m,
            x,
            y,
            catch: true,
            fault,
            keep: false,
        });
    }
    // teardown: clones first (by their users or by thread 0 after the join), then the original
    for t in 1..n_threads {
        if rng.chance(1, 2) {
            threads[t].push(Op::Drop { slot: t as u8 });
        }
    }
    if n_threads > 1 {
        threads[0].push(Op::Wait { mask: 0xfe });
    }
    let mut rest: Vec<u8> = clone_slots.clone();
    rng.shuffle(&mut rest);
    for s in rest {
        threads[0].push(Op::Drop { slot: s });
    }
    threads[0].push(match rng.weighted(&o.finish_weights) {
        0 => Op::Drop { slot: 0 },
        1 => Op::Verify { slot: 0 },
        _ => Op::Report { slot: 0 },
    });
    (threads, prelude)
}
