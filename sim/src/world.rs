//! Executes one `Scenario`: spawns the simulated threads, interprets their operations against real
//! `Unimock` instances and returns the recorded history.

use std::panic::{catch_unwind, resume_unwind, AssertUnwindSafe};
#[cfg(feature = "stdworld")]
use std::process::Termination;
use std::sync::atomic::{AtomicU64, Ordering};
use std::sync::{Arc, Mutex};

use unimock::{MockFn, Unimock};

use crate::corpus::*;
use crate::ctx::*;
use crate::sched::{Sched, SchedStats, SITE_OP};
use crate::spec::*;

pub const N_SLOTS: usize = 72;
/// slot of the second mock's original (C18)
pub const SLOT_MOCK2: u8 = 8;

pub struct RunResult {
    pub log: Log,
    pub sched: SchedStats,
    pub timed_out: bool,
    pub build_error: Option<String>,
}

type Handle = Arc<Unimock>;

pub fn take_slot(run: &RunCtx, slot: u8) -> Option<Handle> {
    run.slots[slot as usize].lock().unwrap().take()
}

pub fn get_slot(run: &RunCtx, slot: u8) -> Option<Handle> {
    run.slots[slot as usize].lock().unwrap().clone()
}

pub fn put_slot(run: &RunCtx, slot: u8, h: Handle) {
    *run.slots[slot as usize].lock().unwrap() = Some(h);
}

/// take the instance out of the slot for exclusive use
pub fn take_unique(run: &RunCtx, slot: u8) -> Result<Unimock, String> {
    match take_slot(run, slot) {
        None => Err("slot empty".into()),
        Some(h) => match Arc::try_unwrap(h) {
            Ok(u) => Ok(u),
            Err(h) => {
                put_slot(run, slot, h);
                Err("instance in use".into())
            }
        },
    }
}

fn panic_text(p: &(dyn std::any::Any + Send)) -> OpResult {
    match classify_panic(p) {
        Outcome::UserPanic(f) => OpResult::UserPanicked(f),
        Outcome::MockPanic(s) => OpResult::Panicked(s),
        _ => unreachable!(),
    }
}

pub fn begin_op(run: &RunCtx, tid: u8, idx: u16, fault: Option<Fault>, mock: u8) -> u64 {
    with_tl(|t| {
        t.cur_op = (tid, idx);
        t.cur_fault = fault;
        t.progs_in_op = 0;
        t.cur_mock = mock;
    });
    run.tick()
}

pub fn end_op(
    run: &RunCtx,
    tid: u8,
    idx: u16,
    start: u64,
    result: OpResult,
    original: Option<bool>,
    pre: Option<Snap>,
) {
    let end = run.tick();
    with_tl(|t| t.cur_fault = None);
    run.log(|l| {
        l.ops.push(OpRec {
            thread: tid,
            index: idx,
            start_step: start,
            end_step: end,
            result,
            original,
            pre,
        })
    });
}

pub fn mock_of(run: &RunCtx, slot: u8) -> u8 {
    run.slot_mock[slot as usize].load(Ordering::SeqCst) as u8
}

/// Executes one operation. `Err(payload)`: a panic that must kill the simulated thread.
fn exec_op(
    run: &Arc<RunCtx>,
    tid: u8,
    idx: u16,
    op: &Op,
    locals: &mut Vec<Handle>,
) -> Result<(), Box<dyn std::any::Any + Send>> {
    match op {
        Op::Call {
            slot,
            m,
            x,
            y,
            catch,
            fault,
            keep,
        } => {
            let (slot, m, x, y) = (*slot, *m, *x, *y);
            // a method without parameters has no arguments to vary
            let (x, y) = if m == M::Z0 { (0, 0) } else { (x, y) };
            let mock = mock_of(run, slot);
            let start = begin_op(run, tid, idx, *fault, mock);
            let first_call = run.log(|l| l.calls.len() as u32);
            let info = m.info();
            let result: Result<Result<u64, Box<dyn std::any::Any + Send>>, String> = match info.recv
            {
                Recv::Ref => match get_slot(run, slot) {
                    None => Err("slot empty".into()),
                    Some(h) => {
                        let r = if matches!(fault, Some(Fault::WhileUnwinding)) {
                            // a guard's destructor makes the call while this thread unwinds
                            struct OnUnwind<'a>(&'a dyn Fn());
                            impl Drop for OnUnwind<'_> {
                                fn drop(&mut self) {
                                    (self.0)()
                                }
                            }
                            let cell: std::cell::RefCell<Option<Result<u64, Box<dyn std::any::Any + Send>>>> = Default::default();
                            let _ = catch_unwind(AssertUnwindSafe(|| {
                                let _g = OnUnwind(&|| {
                                    *cell.borrow_mut() = Some(catch_unwind(AssertUnwindSafe(|| do_call(m, x, y, &mut ref_port(&h)))));
                                });
                                std::panic::resume_unwind(Box::new(UserFault::Body));
                            }));
                            cell.into_inner().expect("the guard ran")
                        } else {
                            catch_unwind(AssertUnwindSafe(|| do_call(m, x, y, &mut ref_port(&h))))
                        };
                        // the handle clone is dropped here; the slot keeps the instance alive unless a
                        // concurrent exclusive operation was refused, so this never drops the Unimock
                        release_handle(run, slot, h);
                        Ok(r)
                    }
                },
                Recv::Mut | Recv::Pin => match take_unique(run, slot) {
                    Err(e) => Err(e),
                    Ok(mut u) => {
                        let r = catch_unwind(AssertUnwindSafe(|| {
                            do_call(m, x, y, &mut mut_port(&mut u))
                        }));
                        put_slot(run, slot, Arc::new(u));
                        Ok(r)
                    }
                },
                Recv::Val => match take_unique(run, slot) {
                    Err(e) => Err(e),
                    Ok(u) => {
                        let mut cell = Some(u);
                        let r = catch_unwind(AssertUnwindSafe(|| {
                            do_call(m, x, y, &mut |req| match req {
                                PortReq::Snap => PortResp::Snap(cell.as_ref().map(take_snap)),
                                PortReq::Call(M::VProv, x, _) => {
                                    PortResp::Val(ByVal::v_prov(cell.take().unwrap(), x))
                                }
                                PortReq::Call(M::Vu, x, _) => PortResp::Val(ByValU::vu(cell.take().unwrap(), x)),
                                PortReq::Call(M::V2Req, x, _) => PortResp::Val(ByVal2::v2_req(cell.take().unwrap(), x)),
                                PortReq::Call(M::V2Prov, x, _) => PortResp::Val(ByVal2::v2_prov(cell.take().unwrap(), x)),
                                PortReq::Call(m, ..) => panic!("bad by-value call {m:?}"),
                            })
                        }));
                        // an instance that the real function let outlive the call goes now
                        let kept = crate::corpus::take_kept();
                        let _ = catch_unwind(AssertUnwindSafe(move || drop(kept)));
                        Ok(r)
                    }
                },
                Recv::Rc => match take_unique(run, slot) {
                    Err(e) => Err(e),
                    Ok(u) => {
                        let rc = std::rc::Rc::new(u);
                        let kept = if *keep { Some(rc.clone()) } else { None };
                        let mut cell = Some(rc);
                        let r = catch_unwind(AssertUnwindSafe(|| {
                            do_call(m, x, y, &mut |req| match req {
                                PortReq::Snap => PortResp::Snap(cell.as_ref().map(|u| take_snap(u))),
                                PortReq::Call(M::RcProv, x, _) => {
                                    PortResp::Val(ByRc::rc_prov(cell.take().unwrap(), x))
                                }
                                PortReq::Call(M::RcU, x, _) => PortResp::Val(ByRcU::rcu(cell.take().unwrap(), x)),
                                PortReq::Call(M::Rc2Req, x, _) => PortResp::Val(ByRc2::rc2_req(cell.take().unwrap(), x)),
                                PortReq::Call(M::Rc2Prov, x, _) => PortResp::Val(ByRc2::rc2_prov(cell.take().unwrap(), x)),
                                PortReq::Call(m, ..) => panic!("bad Rc call {m:?}"),
                            })
                        }));
                        drop(cell);
                        if let Some(k) = kept {
                            match std::rc::Rc::try_unwrap(k) {
                                Ok(u) => put_slot(run, slot, Arc::new(u)),
                                Err(k) => std::mem::forget(k),
                            }
                        }
                        Ok(r)
                    }
                },
                Recv::Arc => match take_slot(run, slot) {
                    None => Err("slot empty".into()),
                    Some(h) if Arc::strong_count(&h) != 1 => {
                        put_slot(run, slot, h);
                        Err("instance in use".into())
                    }
                    Some(h) => {
                        let kept = if *keep { Some(h.clone()) } else { None };
                        let mut cell = Some(h);
                        let r = catch_unwind(AssertUnwindSafe(|| {
                            do_call(m, x, y, &mut |req| match req {
                                PortReq::Snap => PortResp::Snap(cell.as_ref().map(|u| take_snap(u))),
                                PortReq::Call(M::ArcProv, x, _) => {
                                    PortResp::Val(ByArc::arc_prov(cell.take().unwrap(), x))
                                }
                                PortReq::Call(M::Arc2Req, x, _) => PortResp::Val(ByArc2::arc2_req(cell.take().unwrap(), x)),
                                PortReq::Call(M::Arc2Prov, x, _) => PortResp::Val(ByArc2::arc2_prov(cell.take().unwrap(), x)),
                                PortReq::Call(m, ..) => panic!("bad Arc call {m:?}"),
                            })
                        }));
                        drop(cell);
                        if let Some(k) = kept {
                            put_slot(run, slot, k);
                        }
                        Ok(r)
                    }
                },
            };
            run.seq.fetch_add(1, Ordering::SeqCst);
            match result {
                Err(why) => {
                    end_op(run, tid, idx, start, OpResult::Skipped(why), None, None);
                    Ok(())
                }
                Ok(r) => {
                    end_op(run, tid, idx, start, OpResult::Call(first_call), None, None);
                    match r {
                        Ok(_) => Ok(()),
                        Err(p) if *catch => {
                            drop(p);
                            Ok(())
                        }
                        Err(p) => Err(p),
                    }
                }
            }
        }
        Op::Clone { src, dst } => {
            let mock = mock_of(run, *src);
            let start = begin_op(run, tid, idx, None, mock);
            let res = match get_slot(run, *src) {
                None => OpResult::Skipped("slot empty".into()),
                Some(h) => {
                    if run.slots[*dst as usize].lock().unwrap().is_some() {
                        OpResult::Skipped("destination occupied".into())
                    } else {
                        let c = catch_unwind(AssertUnwindSafe(|| (*h).clone()));
                        release_handle(run, *src, h);
                        match c {
                            Ok(c) => {
                                run.slot_mock[*dst as usize].store(mock as u64, Ordering::SeqCst);
                                put_slot(run, *dst, Arc::new(c));
                                OpResult::Done
                            }
                            Err(p) => panic_text(p.as_ref()),
                        }
                    }
                }
            };
            end_op(run, tid, idx, start, res, None, None);
            Ok(())
        }
        Op::CloneInside { src, dst, via_default } => {
            let mock = mock_of(run, *src);
            let start = begin_op(run, tid, idx, None, mock);
            let res = match get_slot(run, *src) {
                None => OpResult::Skipped("slot empty".into()),
                Some(h) => {
                    if run.slots[*dst as usize].lock().unwrap().is_some() {
                        OpResult::Skipped("destination occupied".into())
                    } else {
                        let r = catch_unwind(AssertUnwindSafe(|| if *via_default { (*h).stash_prov(0) } else { (*h).stash_req(0) }));
                        release_handle(run, *src, h);
                        match (r, stash_take()) {
                            (Ok(_), Some(c)) => {
                                run.slot_mock[*dst as usize].store(mock as u64, Ordering::SeqCst);
                                put_slot(run, *dst, Arc::new(c));
                                OpResult::Done
                            }
                            (Ok(_), None) => OpResult::Info("the answer function did not run".into()),
                            (Err(p), c) => {
                                let _ = catch_unwind(AssertUnwindSafe(move || drop(c)));
                                panic_text(p.as_ref())
                            }
                        }
                    }
                }
            };
            end_op(run, tid, idx, start, res, None, None);
            Ok(())
        }
        Op::FreshThreads { kind } => {
            let start = begin_op(run, tid, idx, None, 0);
            thread_local! {
                static FIXTURE: std::cell::RefCell<Option<Unimock>> = const { std::cell::RefCell::new(None) };
            }
            let res = match kind {
                0 | 1 => {
                    let verify = *kind == 1;
                    // thread A builds the mock and is gone before thread B even exists
                    let built = std::thread::spawn(|| Unimock::new(())).join();
                    match built {
                        Err(p) => panic_text(p.as_ref()),
                        Ok(u) => {
                            let r = std::thread::spawn(move || {
                                catch_unwind(AssertUnwindSafe(move || if verify { u.verify() } else { drop(u) })).is_err()
                            })
                            .join();
                            match r {
                                Ok(true) => OpResult::Done,
                                Ok(false) => OpResult::Info("verified on a thread that did not create it, without a panic".into()),
                                Err(p) => panic_text(p.as_ref()),
                            }
                        }
                    }
                }
                _ => {
                    let r = std::thread::spawn(|| {
                        // the fixture's thread-local exists before the mock does
                        FIXTURE.with(|f| f.borrow().is_none());
                        let u = Unimock::new(());
                        FIXTURE.with(|f| *f.borrow_mut() = Some(u));
                    })
                    .join();
                    match r {
                        Ok(()) => OpResult::Done,
                        Err(p) => panic_text(p.as_ref()),
                    }
                }
            };
            end_op(run, tid, idx, start, res, None, None);
            Ok(())
        }
        Op::CallStorm { slot, m, x, n } => {
            let mock = mock_of(run, *slot);
            let start = begin_op(run, tid, idx, None, mock);
            let res = match get_slot(run, *slot) {
                None => OpResult::Skipped("slot empty".into()),
                Some(h) => {
                    let mut runs: Vec<(String, u32)> = vec![];
                    {
                        let _one_unit = unimock::verif::CriticalGuard::enter();
                        for _ in 0..*n {
                            let key = match catch_unwind(AssertUnwindSafe(|| crate::corpus::dispatch_ref(&h, *m, *x, 0))) {
                                Ok(v) => format!("{v:#x}"),
                                Err(p) => match classify_panic(p.as_ref()) {
                                    Outcome::MockPanic(_) => "mock-panic".to_string(),
                                    other => format!("{other:?}"),
                                },
                            };
                            match runs.last_mut() {
                                Some((k, c)) if *k == key => *c += 1,
                                _ => runs.push((key, 1)),
                            }
                        }
                    }
                    release_handle(run, *slot, h);
                    OpResult::Info(serde_json::to_string(&runs).unwrap_or_default())
                }
            };
            end_op(run, tid, idx, start, res, None, None);
            Ok(())
        }
        Op::CloneStorm { slot, n } => {
            let mock = mock_of(run, *slot);
            let start = begin_op(run, tid, idx, None, mock);
            let res = match get_slot(run, *slot) {
                None => OpResult::Skipped("slot empty".into()),
                Some(h) => {
                    // one scheduling unit: the storm is about numbers, not about interleavings
                    let r = {
                        let _one_unit = unimock::verif::CriticalGuard::enter();
                        catch_unwind(AssertUnwindSafe(|| {
                            for _ in 0..*n {
                                drop((*h).clone());
                            }
                        }))
                    };
                    release_handle(run, *slot, h);
                    match r {
                        Ok(()) => OpResult::Done,
                        Err(p) => panic_text(p.as_ref()),
                    }
                }
            };
            end_op(run, tid, idx, start, res, None, None);
            Ok(())
        }
        Op::Drop { slot } | Op::Verify { slot } | Op::Report { slot } | Op::NoVerifyInDrop { slot } | Op::UnwindDrop { slot } => {
            let mock = mock_of(run, *slot);
            let start = begin_op(run, tid, idx, None, mock);
            match take_unique(run, *slot) {
                Err(e) => end_op(run, tid, idx, start, OpResult::Skipped(e), None, None),
                Ok(u) => {
                    let original = unimock::verif::is_original(&u);
                    let pre = take_snap(&u);
                    let res = match op {
                        Op::Drop { .. } => match catch_unwind(AssertUnwindSafe(move || drop(u))) {
                            Ok(()) => OpResult::Quiet,
                            Err(p) => panic_text(p.as_ref()),
                        },
                        Op::UnwindDrop { .. } => {
                            // (a second panic from the drop would abort the process)
                            let _ = catch_unwind(AssertUnwindSafe(move || {
                                let _owned_by_this_frame = u;
                                resume_unwind(Box::new(UserFault::Body));
                            }));
                            OpResult::Quiet
                        }
                        Op::Verify { .. } => match catch_unwind(AssertUnwindSafe(move || u.verify())) {
                            Ok(()) => OpResult::Quiet,
                            Err(p) => panic_text(p.as_ref()),
                        },
                        #[cfg(feature = "stdworld")]
                        Op::Report { .. } => {
                            match catch_unwind(AssertUnwindSafe(move || Termination::report(u))) {
                                Ok(code) => OpResult::ExitCode(
                                    format!("{code:?}")
                                        == format!("{:?}", std::process::ExitCode::SUCCESS),
                                ),
                                Err(p) => panic_text(p.as_ref()),
                            }
                        }
                        // without `std` unimock has no Termination impl: report() is verify()
                        #[cfg(not(feature = "stdworld"))]
                        Op::Report { .. } => match catch_unwind(AssertUnwindSafe(move || u.verify())) {
                            Ok(()) => OpResult::ExitCode(true),
                            Err(_) => OpResult::ExitCode(false),
                        },
                        Op::NoVerifyInDrop { .. } => {
                            match catch_unwind(AssertUnwindSafe(move || u.no_verify_in_drop())) {
                                Ok(u) => {
                                    put_slot(run, *slot, Arc::new(u));
                                    OpResult::Done
                                }
                                Err(p) => panic_text(p.as_ref()),
                            }
                        }
                        _ => unreachable!(),
                    };
                    end_op(run, tid, idx, start, res, Some(original), Some(pre));
                }
            }
            Ok(())
        }
        Op::Hold { slot } => {
            let start = begin_op(run, tid, idx, None, 0);
            let res = match take_slot(run, *slot) {
                None => OpResult::Skipped("slot empty".into()),
                Some(h) => {
                    locals.push(h);
                    OpResult::Done
                }
            };
            end_op(run, tid, idx, start, res, None, None);
            Ok(())
        }
        Op::Wait { mask } => {
            let start = begin_op(run, tid, idx, None, 0);
            run.sched.wait_threads(tid as usize, *mask);
            end_op(run, tid, idx, start, OpResult::Done, None, None);
            Ok(())
        }
        Op::UserPanic { catch } => {
            let start = begin_op(run, tid, idx, None, 0);
            end_op(
                run,
                tid,
                idx,
                start,
                OpResult::UserPanicked(UserFault::Body),
                None,
                None,
            );
            if *catch {
                let _ = catch_unwind(|| std::panic::panic_any(UserFault::Body));
                Ok(())
            } else {
                Err(Box::new(UserFault::Body))
            }
        }
        Op::UnwindScratch { unmet, with_clone } => {
            let start = begin_op(run, tid, idx, None, 0);
            struct Fixture(bool, bool);
            impl Drop for Fixture {
                fn drop(&mut self) {
                    // (runs while the thread unwinds)
                    let u = if self.0 {
                        Unimock::new(AlphaMock::a1.some_call(unimock::matching!(_)).returns(1u64))
                    } else {
                        Unimock::new(())
                    };
                    let c = if self.1 { Some(u.clone()) } else { None };
                    drop(u);
                    drop(c);
                }
            }
            let (unmet, with_clone) = (*unmet, *with_clone);
            let _ = catch_unwind(move || {
                let _f = Fixture(unmet, with_clone);
                std::panic::resume_unwind(Box::new(UserFault::Body));
            });
            end_op(run, tid, idx, start, OpResult::UserPanicked(UserFault::Body), None, None);
            Ok(())
        }
        Op::LendSession { .. } => crate::lending::exec_op(run, tid, idx, op),
        Op::Own { .. } => crate::owning::exec_op(run, tid, idx, op),
        Op::DirectReal { slot, m, x, y } => {
            let mock = mock_of(run, *slot);
            let start = begin_op(run, tid, idx, None, mock);
            let first_call = run.log(|l| l.calls.len() as u32);
            let res = match m.info().recv {
                Recv::Mut => match take_unique(run, *slot) {
                    Err(e) => OpResult::Skipped(e),
                    Ok(mut u) => {
                        let r = catch_unwind(AssertUnwindSafe(|| direct_real_mut(&mut u, *m, *x, *y)));
                        put_slot(run, *slot, Arc::new(u));
                        match r {
                            Ok(val) => OpResult::Value(val),
                            Err(p) => panic_text(p.as_ref()),
                        }
                    }
                },
                _ => match get_slot(run, *slot) {
                    None => OpResult::Skipped("slot empty".into()),
                    Some(h) => {
                        let r = catch_unwind(AssertUnwindSafe(|| direct_real(&h, *m, *x, *y)));
                        release_handle(run, *slot, h);
                        match r {
                            Ok(val) => OpResult::Value(val),
                            Err(p) => panic_text(p.as_ref()),
                        }
                    }
                },
            };
            let _ = first_call;
            end_op(run, tid, idx, start, res, None, None);
            Ok(())
        }
        Op::AsyncGroup { .. } => crate::asyncworld::exec_op(run, tid, idx, op),
        Op::AwaitSeq { n } => {
            let start = begin_op(run, tid, idx, None, 0);
            let mut spins = 0u32;
            while run.seq.load(Ordering::SeqCst) < *n as u64 && spins < 5000 {
                run.sched.yield_now(tid as usize, SITE_OP);
                spins += 1;
            }
            end_op(run, tid, idx, start, OpResult::Done, None, None);
            Ok(())
        }
    }
}

/// Give back a shared handle clone. The instance itself stays in its slot (exclusive operations are
/// refused while a handle clone exists), so dropping the clone never drops the `Unimock`; if the
/// slot was emptied meanwhile by `Hold`, the clone may be the last handle: then the instance is
/// parked back into the slot instead of being dropped here.
pub fn release_handle(run: &RunCtx, slot: u8, h: Handle) {
    if Arc::strong_count(&h) == 1 {
        let mut g = run.slots[slot as usize].lock().unwrap();
        if g.is_none() {
            *g = Some(h);
            return;
        }
        drop(g);
        // cannot happen: the slot holds another instance while we hold the last handle of ours
        std::mem::forget(h);
    }
}

fn thread_body(run: &Arc<RunCtx>, tid: u8, ops: &[Op], prelude: usize) -> Result<(), Box<dyn std::any::Any + Send>> {
    // instances owned by this thread's stack: dropped at thread end, or while unwinding when the
    // thread dies
    let mut locals: Vec<Handle> = vec![];
    for (idx, op) in ops.iter().enumerate() {
        if tid == 0 && idx == prelude {
            run.sched.release_held();
        }
        run.sched.yield_now(tid as usize, SITE_OP);
        if let Err(p) = exec_op(run, tid, idx as u16, op, &mut locals) {
            // die: `locals` is dropped by the unwinding that starts here
            resume_unwind(p);
        }
    }
    // normal end: drop what the thread still owns, one at a time, recording each verdict
    run.sched.yield_now(tid as usize, SITE_OP);
    let mut idx = ops.len() as u16;
    while let Some(h) = locals.pop() {
        let start = begin_op(run, tid, idx, None, 0);
        let res = match Arc::try_unwrap(h) {
            Err(h) => {
                std::mem::forget(h);
                OpResult::Skipped("held instance in use".into())
            }
            Ok(u) => {
                let original = unimock::verif::is_original(&u);
                let pre = take_snap(&u);
                let r = match catch_unwind(AssertUnwindSafe(move || drop(u))) {
                    Ok(()) => OpResult::Quiet,
                    Err(p) => panic_text(p.as_ref()),
                };
                end_op(run, tid, idx, start, r, Some(original), Some(pre));
                idx += 1;
                continue;
            }
        };
        end_op(run, tid, idx, start, res, None, None);
        idx += 1;
    }
    Ok(())
}

pub fn run(scn: &Scenario) -> RunResult {
    crate::sched::install_hook();
    let zst0 = (
        crate::values::ZST_CREATED.load(Ordering::SeqCst),
        crate::values::ZST_DROPPED.load(Ordering::SeqCst),
    );
    let n = scn.threads.len().max(1);
    let mut cfgs = vec![scn.config.clone()];
    if let Some(c2) = &scn.config2 {
        cfgs.push(c2.clone());
    }
    let flats: Vec<Flat> = cfgs.iter().map(|c| c.flatten()).collect();
    let run = Arc::new(RunCtx {
        sched: Sched::new(n, &scn.sched),
        log: Mutex::new(Log::default()),
        cfgs,
        flats,
        step: AtomicU64::new(0),
        inv: AtomicU64::new(0),
        record_matchers: scn.knob("record_matchers").unwrap_or(0) != 0,
        max_depth: scn.knob("max_depth").map(|d| d as usize).unwrap_or(MAX_DEPTH),
        slots: (0..N_SLOTS).map(|_| Mutex::new(None)).collect(),
        slot_mock: (0..N_SLOTS).map(|_| AtomicU64::new(0)).collect(),
        tracker: crate::values::Tracker::new(),
        seq: AtomicU64::new(0),
    });
    if let Some(b) = scn.knob("bomb_val") {
        run.tracker.bomb.store(b as u32, Ordering::SeqCst);
    }
    let build_error: Arc<Mutex<Option<String>>> = Arc::new(Mutex::new(None));
    let prelude = scn.knob("prelude").unwrap_or(0).max(0) as usize;
    if prelude > 0 {
        run.sched.hold_others();
    }

    let mut joins = vec![];
    for tid in 0..n {
        let run = run.clone();
        let ops = scn.threads.get(tid).cloned().unwrap_or_default();
        let build_error = build_error.clone();
        let j = std::thread::Builder::new()
            // (every simulated thread carries the same name: nothing may tell threads apart by it)
            .name("sim".to_string())
            .stack_size((scn.knob("stack_kb").unwrap_or(1024) as usize) << 10)
            .spawn(move || {
                TL.with(|tl| {
                    *tl.borrow_mut() = Some(ThreadCtx {
                        run: run.clone(),
                        tid: tid as u8,
                        call_stack: vec![],
                        prog_stack: vec![],
                        cur_op: (tid as u8, 0),
                        cur_fault: None,
                        progs_in_op: 0,
                        cur_mock: 0,
                        cur_val: 0,
                    })
                });
                run.sched.thread_start(tid);
                if tid == 0 {
                    // thread 0 is the creator of every original in the run
                    for (i, cfg) in run.cfgs.iter().enumerate() {
                        match catch_unwind(AssertUnwindSafe(|| crate::build::build_mock(cfg))) {
                            Ok(u) => {
                                let slot = if i == 0 { 0 } else { SLOT_MOCK2 };
                                run.slot_mock[slot as usize].store(i as u64, Ordering::SeqCst);
                                put_slot(&run, slot, Arc::new(u));
                            }
                            Err(p) => {
                                *build_error.lock().unwrap() = Some(match classify_panic(p.as_ref()) {
                                    Outcome::MockPanic(s) => s,
                                    other => format!("{other:?}"),
                                });
                            }
                        }
                    }
                }
                let r = catch_unwind(AssertUnwindSafe(|| thread_body(&run, tid as u8, &ops, prelude)));
                let end = match r {
                    Ok(Ok(())) => OpResult::Done,
                    Ok(Err(p)) | Err(p) => panic_text(p.as_ref()),
                };
                run.log(|l| l.thread_ends.push((tid as u8, end)));
                TL.with(|tl| *tl.borrow_mut() = None);
                run.sched.thread_done(tid);
            })
            .expect("spawn");
        joins.push(j);
    }
    run.sched.start(0);
    // watchdog (wall clock, a safety net only: a deadlock among simulated threads is detected by the
    // scheduler itself). Generous, so that a loaded machine does not turn a slow run into a harness
    // error; far more under the interpreter, where one scenario can take tens of seconds
    let ok = run.sched.wait_all(std::time::Duration::from_secs(if cfg!(miri) { 600 } else { 90 }));
    if ok {
        for j in joins {
            let _ = j.join();
        }
    }
    // anything still alive is released without verification: it is not part of the simulation
    for slot in 0..N_SLOTS {
        if let Some(h) = take_slot(&run, slot as u8) {
            match Arc::try_unwrap(h) {
                Ok(u) => {
                    if unimock::verif::is_original(&u) {
                        let _ = catch_unwind(AssertUnwindSafe(move || drop(u.no_verify_in_drop())));
                    } else {
                        let _ = catch_unwind(AssertUnwindSafe(move || drop(u)));
                    }
                }
                Err(h) => std::mem::forget(h),
            }
        }
    }
    let mut log = run.log(|l| std::mem::take(l));
    log.track = run.tracker.take();
    log.zst = (
        crate::values::ZST_CREATED.load(Ordering::SeqCst) - zst0.0,
        crate::values::ZST_DROPPED.load(Ordering::SeqCst) - zst0.1,
    );
    let be = build_error.lock().unwrap().clone();
    RunResult {
        log,
        sched: run.sched.stats(),
        timed_out: !ok,
        build_error: be,
    }
}
