mod asyncworld;
mod build;
mod corpus;
mod crash;
mod crossworld;
mod ctx;
mod driver;
mod evidence;
mod exec;
mod fine;
mod gen;
#[cfg(feature = "stdworld")]
mod ioworld;
mod lending;
mod lifeworld;
mod model;
mod oracle;
mod owning;
mod props;
mod rng;
mod sched;
mod shrink;
mod special;
mod spec;
mod twin;
mod values;
mod world;

fn main() {
    let args: Vec<String> = std::env::args().collect();
    let code = match args.get(1).map(|s| s.as_str()) {
        Some("run") => driver::main_run(&args[2..]),
        Some("worker") => {
            driver::main_worker(&args[2..]);
            0
        }
        Some("replay") => driver::main_replay(&args[2..]),
        Some("shrink") => driver::main_shrink(&args[2..]),
        Some("isolated") => props::main_isolated(),
        Some("miri-stage") => driver::main_miri_stage(&args[2..]),
        Some("fingerprint") => driver::main_fingerprint(&args[2..]),
        Some("probe-chain") => {
            // experiment: n make_refs then make_mut / teardown on a small stack
            std::panic::set_hook(Box::new(|_| {}));
            let n: u32 = args[2].parse().unwrap();
            let kb: i64 = args[3].parse().unwrap();
            let with_mut = args[4] == "mut";
            let mut rng = rng::Rng::new(1);
            let cfg = lifeworld::lending_config(false, &mut rng);
            let mut steps = vec![spec::LendStep::Take { kind: spec::LendKind::MakeRefA, val: 1, n }];
            if with_mut {
                steps.push(spec::LendStep::MakeMut { val: 999_999 });
            }
            let scn = spec::Scenario {
                prop: "C13".into(), base_seed: 1, run: 0, batch: "probe".into(), config: cfg, config2: None,
                threads: vec![vec![spec::Op::LendSession { slot: 0, exclusive: true, steps }, spec::Op::Drop { slot: 0 }]],
                sched: spec::SchedSpec { fine: false, strategy: spec::Strategy::RoundRobin, seed: 0, sites: 0, choices: vec![] },
                knobs: vec![("stack_kb".into(), kb)],
            };
            let c = props::check(&scn);
            println!("survived: violations {:?} harness {:?}", c.violations.len(), c.harness_error);
            0
        }
        _ => {
            eprintln!("usage: simctl run --prop Cxx [--tier quick|thorough] [--seed N] [--workers K] | replay <file> | shrink <in> <out>");
            2
        }
    };
    std::process::exit(code);
}
