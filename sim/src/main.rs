fn main(){ println!("hi"); }
