mod build;
mod corpus;
mod ctx;
mod driver;
mod evidence;
mod exec;
mod gen;
mod lending;
mod model;
mod oracle;
mod owning;
mod props;
mod rng;
mod sched;
mod shrink;
mod special;
mod spec;
mod world;

fn main() {
    let args: Vec<String> = std::env::args().collect();
    let code = match args.get(1).map(|s| s.as_str()) {
        Some("run") => driver::main_run(&args[2..]),
        Some("worker") => {
            driver::main_worker(&args[2..]);
            0
        }
        Some("replay") => driver::main_replay(&args[2..]),
        Some("shrink") => driver::main_shrink(&args[2..]),
        _ => {
            eprintln!("usage: simctl run --prop Cxx [--tier quick|thorough] [--seed N] [--workers K] | replay <file> | shrink <in> <out>");
            2
        }
    };
    std::process::exit(code);
}
