//! Configuration -> real `Unimock`, through the public builder API only. Every terminal clause is a
//! real builder chain; `DynClause` (verification hook) only erases its type so that lists of
//! run-time length can be composed, and the list is routed through random tuple nestings.

use std::sync::Arc;

use unimock::build::*;
use unimock::private::Matching;
use unimock::property::*;
use unimock::verif::DynClause;
use unimock::*;

use crate::corpus::*;
use crate::ctx::*;
use crate::rng::Rng;
use crate::spec::*;
use crate::model::real_count;

/// `pat_debug` names: unique, delimiter-terminated so that no name is a substring of another.
pub fn pat_name(uid: u16) -> &'static str {
    static NAMES: std::sync::OnceLock<Vec<&'static str>> = std::sync::OnceLock::new();
    NAMES.get_or_init(|| {
        (0..256)
            .map(|i| &*Box::leak(format!("(#P{i:03}#)").into_boxed_str()))
            .collect()
    })[uid as usize]
}

/// Matchers written with the real `matching!` macro, by accepted set. One-argument methods: every
/// subset of the domain {0,1,2,3} as an or-pattern; two-argument methods: a table of forms (simple,
/// disjunctive, with a guard over an or-bound variable).
pub trait MacroInputs: Sized + 'static {
    fn table<F: for<'i> MockFn<Inputs<'i> = Self>>(pred: u32) -> Option<&'static dyn Fn(&mut Matching<F>)>;
}

const K0: u8 = 0;
const K3: u8 = 3;

impl MacroInputs for u8 {
    fn table<F: for<'i> MockFn<Inputs<'i> = u8>>(pred: u32) -> Option<&'static dyn Fn(&mut Matching<F>)> {
        Some(match pred & 0xf {
            0x0 => matching!((x) if *x > 200),
            // a constant used as a pattern (a bare identifier that is *not* a binding)
            0x1 => matching!(&K0),
            0x2 => matching!(1),
            0x3 => matching!(0 | 1),
            0x4 => matching!(2),
            0x5 => matching!(0 | 2),
            0x6 => matching!(1..=2),
            0x7 => matching!(0..=2),
            0x8 => matching!(&K3),
            0x9 => matching!(0 | 3),
            0xa => matching!(1 | 3),
            0xb => matching!((x) if *x != 2),
            0xc => matching!(2 | 3),
            0xd => matching!(0 | 2 | 3),
            0xe => matching!(1..=3),
            _ => matching!(_),
        })
    }
}

pub const MACRO_PREDS_2: &[u32] = &[0xffff, 0x1111, 0x0ff0, 0x4010, 0xf888, 0x8421, 0x0200, 0xeee0, 0x0e00];

impl MacroInputs for (u8, u8) {
    fn table<F: for<'i> MockFn<Inputs<'i> = (u8, u8)>>(pred: u32) -> Option<&'static dyn Fn(&mut Matching<F>)> {
        Some(match pred {
            0xffff => matching!(_, _),
            0x1111 => matching!(0, _),
            0x0ff0 => matching!(_, 1 | 2),
            0x4010 => matching!((0, 1) | (2, 3)),
            // Rust semantics: the guard is tried for every alternative that matches structurally
            0xf888 => matching!((x, _) | (_, x) if *x > 2),
            0x8421 => matching!((a, b) if a == b),
            // two compare matchers in one alternative
            0x0200 => matching!(eq!(&1u8), eq!(&2u8)),
            0xeee0 => matching!(ne!(&0u8), ne!(&0u8)),
            0x0e00 => matching!(ne!(&0u8), eq!(&2u8)),
            _ => return None,
        })
    }
}

macro_rules! no_macro_inputs {
    ($($t:ty),*) => {$(
        impl MacroInputs for $t {
            fn table<F: for<'i> MockFn<Inputs<'i> = Self>>(_: u32) -> Option<&'static dyn Fn(&mut Matching<F>)> {
                None
            }
        }
    )*};
}
no_macro_inputs!(u16, ());

impl MacroInputs for DbgArg {
    fn table<F: for<'i> MockFn<Inputs<'i> = DbgArg>>(pred: u32) -> Option<&'static dyn Fn(&mut Matching<F>)> {
        Some(match pred & 0xf {
            0x0 => matching!((DbgArg(x)) if *x > 200),
            // struct patterns (named-field syntax): the macro renders them without their fields
            0x1 => matching!(DbgArg { 0: 0 }),
            0x2 => matching!(DbgArg { 0: 1 }),
            0x3 => matching!(DbgArg(0 | 1)),
            0x4 => matching!(DbgArg { 0: 2 }),
            0x5 => matching!(DbgArg(0) | DbgArg(2)),
            0x6 => matching!(DbgArg(1..=2)),
            0x7 => matching!(DbgArg(0..=2)),
            0x8 => matching!(DbgArg { 0: 3 }),
            0x9 => matching!(DbgArg(0 | 3)),
            0xa => matching!(DbgArg(1) | DbgArg(3)),
            0xb => matching!((DbgArg(x)) if *x != 2),
            0xc => matching!(DbgArg(2 | 3)),
            0xd => matching!(DbgArg(0 | 2 | 3)),
            0xe => matching!(DbgArg(1..=3)),
            _ => matching!(_),
        })
    }
}

fn macro_matcher<I: MacroInputs, F: for<'i> MockFn<Inputs<'i> = I>>(pred: u32) -> Option<&'static dyn Fn(&mut Matching<F>)> {
    I::table::<F>(pred)
}

/// Generates, for one signature shape, the generic functions that turn a `ClauseSpec` into a
/// `DynClause` for any MockFn `F` of that shape.
macro_rules! shape {
    (
        $modname:ident,
        inputs = $inputs:ty,
        answer = $answer:ty,
        idx = |$iv:ident| $idx:expr,
        closure = |$uid:ident, $seg:ident| $closure:expr
    ) => {
        pub mod $modname {
            use super::*;

            pub trait Shape:
                for<'i> MockFn<Inputs<'i> = $inputs>
                + MockFn<OutputKind = output::Owning<u64>, AnswerFn = $answer>
                + 'static
            {
            }
            impl<F> Shape for F where
                F: for<'i> MockFn<Inputs<'i> = $inputs>
                    + MockFn<OutputKind = output::Owning<u64>, AnswerFn = $answer>
                    + 'static
            {
            }

            fn matcher<F: Shape>(uid: u16, p: &PatternSpec) -> impl Fn(&mut Matching<F>) {
                let pred = p.pred;
                let has = p.has_matcher;
                let macro_form = p.macro_form;
                move |m: &mut Matching<F>| {
                    if macro_form {
                        // a matcher produced by the real `matching!` macro
                        if let Some(f) = macro_matcher::<$inputs, F>(pred) {
                            f(m);
                        } else {
                            m.func(move |$iv: &$inputs, _| matcher_body(uid, pred, $idx));
                        }
                    } else if has {
                        m.func(move |$iv: &$inputs, _| matcher_body(uid, pred, $idx));
                    }
                    // (patterns of the Debug-rendered argument type that come from the real macro keep the
                    // macro's own rendering: they are only used where every call is answered)
                    let keep_macro_text = macro_form && std::any::TypeId::of::<$inputs>() == std::any::TypeId::of::<DbgArg>();
                    if !keep_macro_text {
                        m.pat_debug(pat_name(uid), "cfg", uid as u32);
                    }
                }
            }

            fn answer_arc<F: Shape>($uid: u16, $seg: u8) -> Arc<$answer> {
                Arc::new($closure)
            }

            fn answer_static<F: Shape>($uid: u16, $seg: u8) -> &'static $answer {
                Box::leak(Box::new($closure))
            }

            enum St<'p, F: Shape, O: Ordering> {
                Qrv(QuantifyReturnValue<'p, F, u64, O>),
                Q(Quantify<'p, F, O>),
                Exact(QuantifiedResponse<'p, F, O, Exact>),
                AtLeast(QuantifiedResponse<'p, F, O, AtLeast>),
            }

            macro_rules! respond {
                ($b:expr, $resp:expr, $u:expr, $s:expr) => {
                    match $resp {
                        Resp::Returns => unreachable!(),
                        Resp::ReturnsDefault => $b.returns_default(),
                        Resp::Answers(_) => $b.answers(answer_static::<F>($u, $s as u8)),
                        Resp::AnswersArc(_) => $b.answers_arc(answer_arc::<F>($u, $s as u8)),
                        Resp::Panics => $b.panics(format!("explicit panic of {} seg {}", pat_name($u), $s)),
                        Resp::Unmocked => $b.applies_unmocked(),
                        Resp::DefaultImpl => $b.applies_default_impl(),
                    }
                };
            }

            fn first_top<'p, F: Shape, O: Ordering>(
                dr: DefineResponse<'p, F, O>,
                uid: u16,
                seg: &Seg,
            ) -> St<'p, F, O> {
                match &seg.resp {
                    Resp::Returns => St::Qrv(dr.returns(ret_token(uid, 0))),
                    other => St::Q(respond!(dr, other, uid, 0usize)),
                }
            }

            fn next_multi<'p, F: Shape, O: Ordering>(
                dmr: DefineMultipleResponses<'p, F, O>,
                uid: u16,
                index: usize,
                seg: &Seg,
            ) -> St<'p, F, O> {
                match &seg.resp {
                    Resp::Returns => St::Q(dmr.returns(ret_token(uid, index))),
                    other => St::Q(respond!(dmr, other, uid, index)),
                }
            }

            fn quantify_any<'p, F: Shape>(st: St<'p, F, InAnyOrder>, q: Quant) -> St<'p, F, InAnyOrder> {
                match (st, q) {
                    (st, Quant::Unq) => st,
                    (St::Qrv(b), Quant::Once) => St::Exact(b.once()),
                    (St::Qrv(b), Quant::N(n)) => St::Exact(b.n_times(real_count(n))),
                    (St::Qrv(b), Quant::AtLeast(n)) => St::AtLeast(b.at_least_times(real_count(n))),
                    (St::Q(b), Quant::Once) => St::Exact(b.once()),
                    (St::Q(b), Quant::N(n)) => St::Exact(b.n_times(real_count(n))),
                    (St::Q(b), Quant::AtLeast(n)) => St::AtLeast(b.at_least_times(real_count(n))),
                    _ => panic!("bad chain: quantifier after a quantified response"),
                }
            }

            fn quantify_ord<'p, F: Shape>(st: St<'p, F, InOrder>, q: Quant) -> St<'p, F, InOrder> {
                match (st, q) {
                    (st, Quant::Unq) => st,
                    (St::Qrv(b), Quant::Once) => St::Exact(b.once()),
                    (St::Qrv(b), Quant::N(n)) => St::Exact(b.n_times(real_count(n))),
                    (St::Q(b), Quant::Once) => St::Exact(b.once()),
                    (St::Q(b), Quant::N(n)) => St::Exact(b.n_times(real_count(n))),
                    _ => panic!("bad chain: ordered patterns take exact counts only"),
                }
            }

            fn rest_any<'p, F: Shape>(
                mut st: St<'p, F, InAnyOrder>,
                uid: u16,
                segs: &[Seg],
            ) -> St<'p, F, InAnyOrder> {
                st = quantify_any(st, segs[0].quant);
                for (i, seg) in segs.iter().enumerate().skip(1) {
                    let dmr = match st {
                        St::Exact(b) => b.then(),
                        _ => panic!("bad chain: then() needs an exact count"),
                    };
                    st = quantify_any(next_multi(dmr, uid, i, seg), seg.quant);
                }
                st
            }

            fn rest_ord<'p, F: Shape>(
                mut st: St<'p, F, InOrder>,
                uid: u16,
                segs: &[Seg],
            ) -> St<'p, F, InOrder> {
                st = quantify_ord(st, segs[0].quant);
                for (i, seg) in segs.iter().enumerate().skip(1) {
                    let dmr = match st {
                        St::Exact(b) => b.then(),
                        _ => panic!("bad chain: then() needs an exact count"),
                    };
                    st = quantify_ord(next_multi(dmr, uid, i, seg), seg.quant);
                }
                st
            }

            fn finish<F: Shape, O: Ordering + Copy + 'static>(st: St<'static, F, O>) -> DynClause {
                match st {
                    St::Qrv(b) => DynClause::new(b),
                    St::Q(b) => DynClause::new(b),
                    St::Exact(b) => DynClause::new(b),
                    St::AtLeast(b) => DynClause::new(b),
                }
            }

            /// Build the clause for `spec` (patterns get the given uids).
            pub fn clause<F: Shape>(f: F, spec: &ClauseSpec, uids: &[u16]) -> DynClause {
                match spec.form {
                    Form::SomeCall => {
                        let p = &spec.patterns[0];
                        let dr = f.some_call(&matcher::<F>(uids[0], p));
                        let st = first_top(dr, uids[0], &p.segs[0]);
                        finish(rest_any(st, uids[0], &p.segs))
                    }
                    Form::NextCall => {
                        let p = &spec.patterns[0];
                        let dr = f.next_call(&matcher::<F>(uids[0], p));
                        let st = first_top(dr, uids[0], &p.segs[0]);
                        finish(rest_ord(st, uids[0], &p.segs))
                    }
                    Form::EachCall => {
                        let p = &spec.patterns[0];
                        let dmr = f.each_call(&matcher::<F>(uids[0], p));
                        let st = next_multi(dmr, uids[0], 0, &p.segs[0]);
                        finish(rest_any(st, uids[0], &p.segs))
                    }
                    Form::Stub => DynClause::new(f.stub(|each| {
                        for (p, uid) in spec.patterns.iter().zip(uids) {
                            let dmr = each.call(&matcher::<F>(*uid, p));
                            if p.segs.is_empty() {
                                // a pattern without any response
                                drop(dmr);
                                continue;
                            }
                            let st = next_multi(dmr, *uid, 0, &p.segs[0]);
                            drop(rest_any(st, *uid, &p.segs));
                        }
                    })),
                }
            }
        }
    };
}

shape!(
    ref1,
    inputs = u8,
    answer = dyn (for<'u> Fn(&'u Unimock, u8) -> u64) + Send + Sync,
    idx = |i| arg_index(*i, 0),
    closure = |uid, seg| move |u: &Unimock, x: u8| run_prog(ProgKind::Answer { uid, seg }, x, 0, &mut ref_port(u))
);

shape!(
    ref0,
    inputs = (),
    answer = dyn (for<'u> Fn(&'u Unimock) -> u64) + Send + Sync,
    idx = |_i| 0,
    closure = |uid, seg| move |u: &Unimock| run_prog(ProgKind::Answer { uid, seg }, 0, 0, &mut ref_port(u))
);

shape!(
    ref2,
    inputs = (u8, u8),
    answer = dyn (for<'u> Fn(&'u Unimock, u8, u8) -> u64) + Send + Sync,
    idx = |i| arg_index(i.0, i.1),
    closure = |uid, seg| move |u: &Unimock, x: u8, y: u8| run_prog(ProgKind::Answer { uid, seg }, x, y, &mut ref_port(u))
);

shape!(
    mut1,
    inputs = u8,
    answer = dyn (for<'u> Fn(&'u mut Unimock, u8) -> u64) + Send + Sync,
    idx = |i| arg_index(*i, 0),
    closure = |uid, seg| move |u: &mut Unimock, x: u8| run_prog(ProgKind::Answer { uid, seg }, x, 0, &mut mut_port(u))
);

shape!(
    val1,
    inputs = u8,
    answer = dyn (Fn(Unimock, u8) -> u64) + Send + Sync,
    idx = |i| arg_index(*i, 0),
    closure = |uid, seg| move |u: Unimock, x: u8| run_prog(ProgKind::Answer { uid, seg }, x, 0, &mut ref_port(&u))
);

shape!(
    rc1,
    inputs = u8,
    answer = dyn (Fn(std::rc::Rc<Unimock>, u8) -> u64) + Send + Sync,
    idx = |i| arg_index(*i, 0),
    closure = |uid, seg| move |u: std::rc::Rc<Unimock>, x: u8| run_prog(ProgKind::Answer { uid, seg }, x, 0, &mut ref_port(&u))
);

shape!(
    arc1,
    inputs = u8,
    answer = dyn (Fn(Arc<Unimock>, u8) -> u64) + Send + Sync,
    idx = |i| arg_index(*i, 0),
    closure = |uid, seg| move |u: Arc<Unimock>, x: u8| run_prog(ProgKind::Answer { uid, seg }, x, 0, &mut ref_port(&u))
);

shape!(
    dbg1,
    inputs = DbgArg,
    answer = dyn (for<'u> Fn(&'u Unimock, DbgArg) -> u64) + Send + Sync,
    idx = |i| arg_index(i.0, 0),
    closure = |uid, seg| move |u: &Unimock, x: DbgArg| run_prog(ProgKind::Answer { uid, seg }, x.0, 0, &mut ref_port(u))
);

shape!(
    u16ref1,
    inputs = u16,
    answer = dyn (for<'u> Fn(&'u Unimock, u16) -> u64) + Send + Sync,
    idx = |i| arg_index(*i as u8, 0),
    closure = |uid, seg| move |u: &Unimock, x: u16| run_prog(ProgKind::Answer { uid, seg }, x as u8, 0, &mut ref_port(u))
);

fn clause_for(spec: &ClauseSpec, uids: &[u16]) -> DynClause {
    match spec.m {
        M::A0 => ref1::clause(AlphaMock::a0, spec, uids),
        M::A1 => ref1::clause(AlphaMock::a1, spec, uids),
        M::B0 => ref1::clause(BetaMock::b0, spec, uids),
        M::B1 => ref1::clause(BetaMock::b1, spec, uids),
        M::B2 => ref2::clause(BetaMock::b2, spec, uids),
        M::B3 => ref1::clause(BetaMock::b3, spec, uids),
        M::Gm => mut1::clause(GammaMock::gm, spec, uids),
        M::Gp => mut1::clause(GammaMock::gp, spec, uids),
        M::VReq => ref1::clause(ByValMock::v_req, spec, uids),
        M::VProv => val1::clause(ByValMock::v_prov, spec, uids),
        M::RcReq => ref1::clause(ByRcMock::rc_req, spec, uids),
        M::RcProv => rc1::clause(ByRcMock::rc_prov, spec, uids),
        M::ArcReq => ref1::clause(ByArcMock::arc_req, spec, uids),
        M::ArcProv => arc1::clause(ByArcMock::arc_prov, spec, uids),
        M::PinReq => mut1::clause(ByPinMock::pin_req, spec, uids),
        M::PinProv => mut1::clause(ByPinMock::pin_prov, spec, uids),
        M::E0 => ref2::clause(ExplMock::e0, spec, uids),
        M::S0 => ref1::clause(SkipMock::s0, spec, uids),
        M::S1 => ref1::clause(SkipMock::s1, spec, uids),
        M::S2 => ref1::clause(SkipMock::s2, spec, uids),
        M::D0 => dbg1::clause(DbgTMock::d0, spec, uids),
        M::Vu => val1::clause(ByValUMock::vu, spec, uids),
        M::V2Req => val1::clause(ByVal2Mock::v2_req, spec, uids),
        M::V2Prov => val1::clause(ByVal2Mock::v2_prov, spec, uids),
        M::Rc2Req => rc1::clause(ByRc2Mock::rc2_req, spec, uids),
        M::Rc2Prov => rc1::clause(ByRc2Mock::rc2_prov, spec, uids),
        M::Arc2Req => arc1::clause(ByArc2Mock::arc2_req, spec, uids),
        M::Arc2Prov => arc1::clause(ByArc2Mock::arc2_prov, spec, uids),
        M::RcU => rc1::clause(ByRcUMock::rcu, spec, uids),
        M::Show => panic!("FmtT::show is only used unmentioned"),
        M::N0 => panic!("NoApi::n0 cannot be mentioned: its trait is mocked without api="),
        M::Z0 => ref0::clause(ZeroMock::z0, spec, uids),
        M::GpU8 => opaque::clause_u8(|| GenMMock::gp.with_types::<u8>(), spec, uids),
        M::GpU16 => opaque::clause_u16(|| GenMMock::gp.with_types::<u16>(), spec, uids),
        other @ (M::StashReq | M::LendA | M::LendB | M::LendMut | M::Lent | M::LendClone | M::LendGuard | M::LendVia | M::LendViaMut | M::LendZ | M::OwnSingle | M::OwnMulti
        | M::OwnOpt | M::OwnRes | M::OwnTup | M::OwnTup1 | M::OwnVec | M::OwnTup3 | M::OwnDeepOpt | M::OwnDeepPoll | M::OwnPollMulti | M::OwnOptMulti | M::OwnUnit | M::TermReport) => {
            panic!("{other:?} is configured through Config::specials")
        }
        M::Af => ref1::clause(AsyncAMock::af, spec, uids),
        M::Ag => ref1::clause(AsyncAMock::ag, spec, uids),
        M::Ai => ref1::clause(AsyncAMock::ai, spec, uids),
        M::At => ref1::clause(AsyncTMock::at, spec, uids),
        M::GenU8 => gen_u8(spec, uids),
        M::GenU16 => gen_u16(spec, uids),
        M::GmU8 => genm_u8(spec, uids),
        M::GmU16 => genm_u16(spec, uids),
        M::GiU8 => opaque::clause_u8(|| GenIMock::gi.with_types::<u8>(), spec, uids),
        M::GiU16 => opaque::clause_u16(|| GenIMock::gi.with_types::<u16>(), spec, uids),
        M::GnU8 => opaque::clause_u8(|| GenMock::nt.with_types::<u8>(), spec, uids),
        M::GnU16 => opaque::clause_u8(|| GenMock::nt.with_types::<u16>(), spec, uids),
    }
}

// `with_types` returns an opaque `impl MockFn`; it is not Copy, so these go through a thin wrapper.
fn gen_u8(spec: &ClauseSpec, uids: &[u16]) -> DynClause {
    opaque::clause_u8(|| GenMock::g.with_types::<u8>(), spec, uids)
}
fn gen_u16(spec: &ClauseSpec, uids: &[u16]) -> DynClause {
    opaque::clause_u16(|| GenMock::g.with_types::<u16>(), spec, uids)
}
fn genm_u8(spec: &ClauseSpec, uids: &[u16]) -> DynClause {
    opaque::clause_u8(|| GenMMock::gm.with_types::<u8>(), spec, uids)
}
fn genm_u16(spec: &ClauseSpec, uids: &[u16]) -> DynClause {
    opaque::clause_u16(|| GenMMock::gm.with_types::<u16>(), spec, uids)
}

/// Generic instantiations: only the `each_call(..).returns(token)` / answers_arc forms are needed
/// (C18 checks that instantiations do not mix), kept deliberately small.
mod opaque {
    use super::*;

    macro_rules! opaque_clause {
        ($name:ident, $t:ty) => {
            pub fn $name<F>(mk: impl Fn() -> F, spec: &ClauseSpec, uids: &[u16]) -> DynClause
            where
                F: for<'i> MockFn<Inputs<'i> = $t>
                    + MockFn<
                        OutputKind = output::Owning<u64>,
                        AnswerFn = dyn (for<'u> Fn(&'u Unimock, $t) -> u64) + Send + Sync,
                    > + 'static,
            {
                let p = &spec.patterns[0];
                let uid = uids[0];
                let pred = p.pred;
                let has = p.has_matcher;
                let matcher = move |m: &mut Matching<F>| {
                    if has {
                        m.func(move |i: &$t, _| matcher_body(uid, pred, arg_index(*i as u8, 0)));
                    }
                    m.pat_debug(pat_name(uid), "cfg", uid as u32);
                };
                let seg = &p.segs[0];
                let f = mk();
                match spec.form {
                    Form::NextCall => {
                        let dr = f.next_call(&matcher);
                        match (&seg.resp, seg.quant) {
                            (Resp::Returns, Quant::N(n)) => {
                                DynClause::new(dr.returns(ret_token(uid, 0)).n_times(real_count(n)))
                            }
                            _ => DynClause::new(dr.returns(ret_token(uid, 0))),
                        }
                    }
                    _ => {
                        let dmr = f.each_call(&matcher);
                        let q = match &seg.resp {
                            Resp::AnswersArc(_) | Resp::Answers(_) => {
                                dmr.answers_arc(Arc::new(move |u: &Unimock, x: $t| {
                                    run_prog(
                                        ProgKind::Answer { uid, seg: 0 },
                                        x as u8,
                                        0,
                                        &mut ref_port(u),
                                    )
                                }))
                            }
                            _ => dmr.returns(ret_token(uid, 0)),
                        };
                        match seg.quant {
                            Quant::N(n) => DynClause::new(q.n_times(real_count(n))),
                            Quant::AtLeast(n) => DynClause::new(q.at_least_times(real_count(n))),
                            Quant::Once => DynClause::new(q.once()),
                            Quant::Unq => DynClause::new(q),
                        }
                    }
                }
            }
        };
    }
    opaque_clause!(clause_u8, u8);
    opaque_clause!(clause_u16, u16);
}

// ---------------------------------------------------------------------------------------------
// tuple nesting

macro_rules! tuple_of {
    ($v:ident; $($i:tt),+) => {{
        let mut it = $v.into_iter();
        DynClause::new(( $( { let _ = $i; it.next().unwrap() }, )+ ))
    }};
}

fn tuple_from(v: Vec<DynClause>) -> DynClause {
    match v.len() {
        2 => tuple_of!(v; 0, 1),
        3 => tuple_of!(v; 0, 1, 2),
        4 => tuple_of!(v; 0, 1, 2, 3),
        5 => tuple_of!(v; 0, 1, 2, 3, 4),
        6 => tuple_of!(v; 0, 1, 2, 3, 4, 5),
        7 => tuple_of!(v; 0, 1, 2, 3, 4, 5, 6),
        8 => tuple_of!(v; 0, 1, 2, 3, 4, 5, 6, 7),
        9 => tuple_of!(v; 0, 1, 2, 3, 4, 5, 6, 7, 8),
        10 => tuple_of!(v; 0, 1, 2, 3, 4, 5, 6, 7, 8, 9),
        11 => tuple_of!(v; 0, 1, 2, 3, 4, 5, 6, 7, 8, 9, 10),
        12 => tuple_of!(v; 0, 1, 2, 3, 4, 5, 6, 7, 8, 9, 10, 11),
        13 => tuple_of!(v; 0, 1, 2, 3, 4, 5, 6, 7, 8, 9, 10, 11, 12),
        14 => tuple_of!(v; 0, 1, 2, 3, 4, 5, 6, 7, 8, 9, 10, 11, 12, 13),
        15 => tuple_of!(v; 0, 1, 2, 3, 4, 5, 6, 7, 8, 9, 10, 11, 12, 13, 14),
        16 => tuple_of!(v; 0, 1, 2, 3, 4, 5, 6, 7, 8, 9, 10, 11, 12, 13, 14, 15),
        _ => unreachable!(),
    }
}

/// Group a clause list into a random nesting of tuples (arity 2..=16), preserving order.
fn nest(mut list: Vec<DynClause>, rng: &mut Rng) -> DynClause {
    if list.len() == 1 && rng.chance(2, 3) {
        return list.pop().unwrap();
    }
    if list.is_empty() {
        return DynClause::new(());
    }
    if list.len() == 1 {
        // a 2-tuple with the unit clause
        let one = list.pop().unwrap();
        return if rng.chance(1, 2) {
            tuple_from(vec![one, DynClause::new(())])
        } else {
            tuple_from(vec![DynClause::new(()), one])
        };
    }
    let arity = rng.range(2, list.len().min(16));
    // split into `arity` contiguous non-empty chunks
    let mut cuts: Vec<usize> = (1..list.len()).collect();
    rng.shuffle(&mut cuts);
    cuts.truncate(arity - 1);
    cuts.sort();
    let mut chunks: Vec<Vec<DynClause>> = vec![];
    let mut rest = list;
    let mut taken = 0;
    for c in cuts {
        let tail = rest.split_off(c - taken);
        chunks.push(rest);
        rest = tail;
        taken = c;
    }
    chunks.push(rest);
    let mut parts: Vec<DynClause> = chunks.into_iter().map(|c| nest(c, rng)).collect();
    // unit clauses change nothing but the arity of the tuple and the positions of its elements:
    // every arity up to 16 is reached by small configurations too
    if rng.chance(1, 2) && parts.len() < 16 {
        let target = rng.range(parts.len(), 16);
        while parts.len() < target {
            let pos = rng.usize(parts.len() + 1);
            parts.insert(pos, DynClause::new(()));
        }
    }
    tuple_from(parts)
}

fn quantified<F: MockFn + 'static>(q: Quantify<'static, F, InAnyOrder>, quant: Quant) -> DynClause {
    match quant {
        Quant::Unq => DynClause::new(q),
        Quant::Once => DynClause::new(q.once()),
        Quant::N(n) => DynClause::new(q.n_times(real_count(n))),
        Quant::AtLeast(n) => DynClause::new(q.at_least_times(real_count(n))),
    }
}

fn special_clause(sp: &Special) -> DynClause {
    use crate::values::*;
    let tracker = tl_tracker();
    match sp {
        Special::LendA => DynClause::new(
            LendMock::lend_a
                .each_call(matching!(_))
                .answers(&|u, _| u.make_ref(ValA::new(&tl_tracker(), tl_val_id()))),
        ),
        Special::LendB => DynClause::new(
            LendMock::lend_b
                .each_call(matching!(_))
                .answers(&|u, _| u.make_ref(ValB::new(&tl_tracker(), tl_val_id()))),
        ),
        Special::LendMut => DynClause::new(
            LendMock::lend_mut
                .each_call(matching!(_))
                .answers(&|u, _| u.make_mut(ValA::new(&tl_tracker(), tl_val_id()))),
        ),
        Special::Lent { id } => DynClause::new(LendMock::lent.each_call(matching!(_)).returns(Tracked::new(&tracker, *id))),
        Special::StashClone => DynClause::new(StashMock::stash_req.each_call(matching!(_)).answers(&|u, _| {
            stash_put(u.clone());
            7
        })),
        Special::LendZ => DynClause::new(LendMock::lend_z.each_call(matching!(_)).answers(&|u, _| u.make_ref(ZTok::new()))),
        Special::LendGuard => DynClause::new(
            LendMock::lend_guard
                .each_call(matching!(_))
                .answers(&|u, x| u.make_ref(GuardVal { clone: u.clone(), x })),
        ),
        Special::LendClone => DynClause::new(
            LendMock::lend_clone
                .each_call(matching!(_))
                .answers(&|u, _| u.make_ref(u.clone())),
        ),
        Special::OwnSingle { ordered, once, then_answers, id } => {
            let value = Tracked::new(&tracker, *id);
            macro_rules! chain {
                ($start:expr) => {{
                    let qrv = $start.returns(value);
                    if *then_answers {
                        DynClause::new(
                            qrv.once()
                                .then()
                                .answers(&|_, _| Tracked::new(&tl_tracker(), tl_val_id())),
                        )
                    } else if *once {
                        DynClause::new(qrv.once())
                    } else {
                        DynClause::new(qrv)
                    }
                }};
            }
            if *ordered {
                chain!(OwnMock::own_single.next_call(matching!(_)))
            } else {
                chain!(OwnMock::own_single.some_call(matching!(_)))
            }
        }
        Special::OwnMulti { quant, each_call, id } => {
            let value = TrackedC::new(&tracker, *id);
            if *each_call {
                quantified(OwnMock::own_multi.each_call(matching!(_)).returns(value), *quant)
            } else {
                let qrv = OwnMock::own_multi.some_call(matching!(_)).returns(value);
                match quant {
                    Quant::AtLeast(n) => DynClause::new(qrv.at_least_times(real_count(*n))),
                    Quant::N(n) => DynClause::new(qrv.n_times(real_count(*n))),
                    _ => DynClause::new(qrv.n_times(2)),
                }
            }
        }
        Special::OwnMultiThen { n, each_call, id, id2 } => {
            let (v1, v2) = (TrackedC::new(&tracker, *id), TrackedC::new(&tracker, *id2));
            if *each_call {
                DynClause::new(OwnMock::own_multi.each_call(matching!(_)).returns(v1).n_times(real_count(*n)).then().returns(v2))
            } else {
                DynClause::new(OwnMock::own_multi.some_call(matching!(_)).returns(v1).n_times(real_count(*n)).then().returns(v2))
            }
        }
        Special::OwnOpt { id } => {
            DynClause::new(OwnMock::own_opt.some_call(matching!(_)).returns(Some(Tracked::new(&tracker, *id))))
        }
        Special::OwnRes { id } => DynClause::new(
            OwnMock::own_res
                .some_call(matching!(_))
                .returns(Err::<u32, _>(Tracked::new(&tracker, *id))),
        ),
        Special::OwnTup { quant, id } => quantified(
            OwnMock::own_tup
                .each_call(matching!(_))
                .returns((7u32, TrackedC::new(&tracker, *id))),
            *quant,
        ),
        Special::OwnTup1 { id } => DynClause::new(
            OwnMock::own_tup1
                .some_call(matching!(_))
                .returns((7u32, Tracked::new(&tracker, *id))),
        ),
        Special::OwnTup3 { id } => DynClause::new(
            OwnMock::own_tup3
                .some_call(matching!(_))
                .returns((7u32, Tracked::new(&tracker, *id), Tracked::new(&tracker, *id + 1))),
        ),
        Special::OwnDeepOpt { id } => DynClause::new(
            OwnMock::own_deep_opt
                .some_call(matching!(_))
                .returns(Some(Err::<u32, _>(Tracked::new(&tracker, *id)))),
        ),
        Special::OwnDeepPoll { id } => DynClause::new(
            OwnMock::own_deep_poll
                .some_call(matching!(_))
                .returns(std::task::Poll::Ready(Err::<u32, _>(Tracked::new(&tracker, *id)))),
        ),
        #[cfg(feature = "stdworld")]
        Special::MockedReport { success } => DynClause::new(
            unimock::mock::std::process::TerminationMock::report
                .each_call(matching!())
                .returns(if *success { std::process::ExitCode::SUCCESS } else { std::process::ExitCode::FAILURE }),
        ),
        #[cfg(not(feature = "stdworld"))]
        Special::MockedReport { .. } => DynClause::new(()),
        #[cfg(feature = "stdworld")]
        Special::MockedReportPanics => DynClause::new(unimock::mock::std::process::TerminationMock::report.each_call(matching!()).panics("explicit panic of report()")),
        #[cfg(not(feature = "stdworld"))]
        Special::MockedReportPanics => DynClause::new(()),
        Special::OwnUnit { .. } => DynClause::new(OwnMock::own_unit.some_call(matching!(_)).returns(())),
        Special::OwnOptMulti { quant, id } => quantified(
            OwnMock::own_opt_multi
                .each_call(matching!(_))
                .returns(Some(Err::<u32, _>(TrackedC::new(&tracker, *id)))),
            *quant,
        ),
        Special::OwnPollMulti { quant, id } => quantified(
            OwnMock::own_poll_multi
                .each_call(matching!(_))
                .returns(std::task::Poll::Ready(Err::<u32, _>(TrackedC::new(&tracker, *id)))),
            *quant,
        ),
        Special::OwnVec { id } => DynClause::new(
            OwnMock::own_vec
                .some_call(matching!(_))
                .returns(vec![Ok(1u32), Err(Tracked::new(&tracker, *id)), Ok(3u32)]),
        ),
    }
}

/// Build the real mock. Must be called on the simulated thread that is to be its creator.
pub fn build_mock(cfg: &Config) -> Unimock {
    let mut uid = 0u16;
    let mut clauses = vec![];
    for c in &cfg.clauses {
        let uids: Vec<u16> = (0..c.patterns.len() as u16).map(|i| uid + i).collect();
        uid += c.patterns.len() as u16;
        clauses.push(clause_for(c, &uids));
    }
    for sp in &cfg.specials {
        clauses.push(special_clause(sp));
    }
    let mut rng = Rng::new(cfg.nest_seed);
    let clause = if cfg.nest_seed == 0 {
        DynClause::new(clauses)
    } else {
        nest(clauses, &mut rng)
    };
    if cfg.partial {
        Unimock::new_partial(clause)
    } else {
        Unimock::new(clause)
    }
}
