//! Lending world (C13): sessions in which a simulated thread borrows an instance, takes references
//! from it (make_ref of two value types, lent `returns` values, through the delegation helper,
//! clones of the mock itself) and re-reads *all* of them after every further step; exclusive
//! sessions additionally use make_mut, which is the only thing allowed to release earlier values.

use std::sync::Arc;

use unimock::Unimock;

use crate::corpus::*;
use crate::ctx::*;
use crate::sched::SITE_OP;
use crate::spec::*;
use crate::values::*;
use crate::world::*;

fn ev(run: &RunCtx, tid: u8, slot: u8, what: LendWhat) {
    let step = run.tick();
    run.log(|l| l.lend.push(LendEv { step, thread: tid, slot, what }));
}

#[derive(Default)]
struct Held<'a> {
    a: Vec<(u32, &'a ValA)>,
    b: Vec<(u32, &'a ValB)>,
    t: Vec<(u32, &'a Tracked)>,
    u: Vec<&'a Unimock>,
}

impl Held<'_> {
    fn len(&self) -> u32 {
        (self.a.len() + self.b.len() + self.t.len() + self.u.len()) as u32
    }

    fn check(&self, run: &RunCtx, tid: u8, slot: u8) {
        let mut addrs: std::collections::HashSet<usize> = Default::default();
        let mut bad = |val: u32, what: String| ev(run, tid, slot, LendWhat::Bad { val, what });
        for (id, r) in &self.a {
            if r.id != *id || !r.intact() {
                bad(*id, format!("ValA reference now shows id {} canary {:#x}", r.id, r.canary));
            }
            if !addrs.insert(*r as *const ValA as usize) {
                bad(*id, "two held references share an address".into());
            }
        }
        for (id, r) in &self.b {
            if r.id != *id || !r.intact() || r.pad != [7; 3] {
                bad(*id, format!("ValB reference now shows id {} canary {:#x} pad {:?}", r.id, r.canary, r.pad));
            }
            if !addrs.insert(*r as *const ValB as usize) {
                bad(*id, "two held references share an address".into());
            }
        }
        for (id, r) in &self.t {
            if r.id != *id || !r.intact() {
                bad(*id, format!("lent Tracked reference now shows id {}", r.id));
            }
        }
        for r in &self.u {
            // a lent clone of the mock must still be a usable clone
            if unimock::verif::is_original(r) {
                bad(0, "lent clone turned into the original".into());
            }
        }
        ev(run, tid, slot, LendWhat::Checked { n: self.len() });
    }
}

fn take<'a>(run: &RunCtx, tid: u8, slot: u8, u: &'a Unimock, held: &mut Held<'a>, kind: LendKind, val: u32, lent_id: u32) {
    with_tl(|t| t.cur_val = val);
    match kind {
        LendKind::MakeRefA => {
            let r = u.lend_a(0);
            ev(run, tid, slot, LendWhat::Taken { val, kind, addr: r as *const ValA as u64 });
            held.a.push((val, r));
        }
        LendKind::MakeRefB => {
            let r = u.lend_b(0);
            ev(run, tid, slot, LendWhat::Taken { val, kind, addr: r as *const ValB as u64 });
            held.b.push((val, r));
        }
        LendKind::ViaHelper => {
            let r = u.lend_via(0);
            ev(run, tid, slot, LendWhat::Taken { val, kind, addr: r as *const ValA as u64 });
            held.a.push((val, r));
        }
        LendKind::Lent => {
            let r = u.lent(0);
            ev(run, tid, slot, LendWhat::Taken { val: lent_id, kind, addr: r as *const Tracked as u64 });
            held.t.push((lent_id, r));
        }
        LendKind::MakeRefZ => {
            let r = u.lend_z(0);
            ev(run, tid, slot, LendWhat::Taken { val, kind, addr: r as *const ZTok as u64 });
        }
        LendKind::ViaLentClone => {
            // (the inner clone's id is irrelevant to the drop accounting: lent clones carry no tracker)
            let inner: &Unimock = u.lend_clone(0);
            held.u.push(inner);
            let r = inner.lend_a(0);
            ev(run, tid, slot, LendWhat::Taken { val, kind, addr: r as *const ValA as u64 });
            held.a.push((val, r));
        }
        LendKind::CloneOfSelf => {
            let r = u.lend_clone(0);
            ev(run, tid, slot, LendWhat::Taken { val, kind, addr: r as *const Unimock as u64 });
            held.u.push(r);
        }
    }
}

fn shared_steps(run: &Arc<RunCtx>, tid: u8, slot: u8, u: &Unimock, steps: &[LendStep], lent_id: u32) {
    let mut held = Held::default();
    for step in steps {
        match step {
            LendStep::Take { kind, val, n } => {
                for i in 0..*n {
                    take(run, tid, slot, u, &mut held, *kind, val + i, lent_id);
                }
                held.check(run, tid, slot);
            }
            LendStep::Check => held.check(run, tid, slot),
            LendStep::Yield => run.sched.yield_now(tid as usize, SITE_OP),
            LendStep::MakeMut { .. } | LendStep::ViaMut { .. } => unreachable!("needs an exclusive session"),
        }
    }
    held.check(run, tid, slot);
    ev(run, tid, slot, LendWhat::SessionEnd { held: held.len() });
}

fn lent_id_of(run: &RunCtx, mock: u8) -> u32 {
    run.cfgs[mock as usize]
        .specials
        .iter()
        .find_map(|s| if let Special::Lent { id } = s { Some(*id) } else { None })
        .unwrap_or(0)
}

pub fn exec_op(run: &Arc<RunCtx>, tid: u8, idx: u16, op: &Op) -> Result<(), Box<dyn std::any::Any + Send>> {
    let Op::LendSession { slot, exclusive, steps } = op else { unreachable!() };
    let slot = *slot;
    let mock = mock_of(run, slot);
    let start = begin_op(run, tid, idx, None, mock);
    let lent_id = lent_id_of(run, mock);
    let result = if !*exclusive {
        match get_slot(run, slot) {
            None => OpResult::Skipped("slot empty".into()),
            Some(h) => {
                ev(run, tid, slot, LendWhat::SessionStart { exclusive: false });
                let r = std::panic::catch_unwind(std::panic::AssertUnwindSafe(|| shared_steps(run, tid, slot, &h, steps, lent_id)));
                release_handle(run, slot, h);
                match r {
                    Ok(()) => OpResult::Done,
                    Err(p) => match classify_panic(p.as_ref()) {
                        Outcome::MockPanic(s) => OpResult::Panicked(s),
                        Outcome::UserPanic(f) => OpResult::UserPanicked(f),
                        _ => OpResult::Done,
                    },
                }
            }
        }
    } else {
        match take_unique(run, slot) {
            Err(e) => OpResult::Skipped(e),
            Ok(mut u) => {
                ev(run, tid, slot, LendWhat::SessionStart { exclusive: true });
                let r = std::panic::catch_unwind(std::panic::AssertUnwindSafe(|| {
                    // phases of shared borrows, separated by make_mut
                    let mut i = 0;
                    while i < steps.len() {
                        let j = steps[i..].iter().position(|s| matches!(s, LendStep::MakeMut { .. } | LendStep::ViaMut { .. })).map(|p| i + p).unwrap_or(steps.len());
                        shared_steps(run, tid, slot, &u, &steps[i..j], lent_id);
                        if j < steps.len() {
                            if let LendStep::ViaMut { val } = steps[j] {
                                with_tl(|t| t.cur_val = val);
                                let r = u.lend_via_mut(0);
                                let ok = r.id == val && r.intact();
                                let addr = r as *const ValA as u64;
                                ev(run, tid, slot, LendWhat::Taken { val, kind: LendKind::ViaHelper, addr });
                                if !ok {
                                    ev(run, tid, slot, LendWhat::Bad { val, what: "the &mut provided method returned a reference to another value".into() });
                                }
                            }
                            if let LendStep::MakeMut { val } = steps[j] {
                                with_tl(|t| t.cur_val = val);
                                ev(run, tid, slot, LendWhat::MakeMutStart { val });
                                let r = u.lend_mut(0);
                                let ok = r.id == val && r.intact();
                                let addr = r as *const ValA as u64;
                                ev(run, tid, slot, LendWhat::MakeMutEnd { val });
                                ev(run, tid, slot, LendWhat::Taken { val, kind: LendKind::MakeRefA, addr });
                                if !ok {
                                    ev(run, tid, slot, LendWhat::Bad { val, what: "make_mut returned a reference to another value".into() });
                                }
                            }
                        }
                        i = j + 1;
                    }
                }));
                put_slot(run, slot, Arc::new(u));
                match r {
                    Ok(()) => OpResult::Done,
                    Err(p) => match classify_panic(p.as_ref()) {
                        Outcome::MockPanic(s) => OpResult::Panicked(s),
                        Outcome::UserPanic(f) => OpResult::UserPanicked(f),
                        _ => OpResult::Done,
                    },
                }
            }
        }
    };
    end_op(run, tid, idx, start, result, None, None);
    Ok(())
}
