//! Lending world (C13) operations. 
use std::sync::Arc;
use crate::ctx::*;
use crate::spec::*;

pub fn exec_op(
    _run: &Arc<RunCtx>,
    _tid: u8,
    _idx: u16,
    _op: &Op,
    _locals: &mut Vec<Arc<unimock::Unimock>>,
) -> Result<(), Box<dyn std::any::Any + Send>> {
    unimplemented!("lending world")
}
